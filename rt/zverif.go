package runtime

import "internal/runtime/atomic"

// Simulation-only additions (verif): seeded replacements for the runtime's
// sources of randomness that influence nsq-visible behaviour.

var verifSimOn uint32
var verifRandState uint64
var verifSelState uint64
var verifTimerState uint64

//go:nosplit
func verifMix(z uint64) uint64 {
	z = (z ^ (z >> 30)) * 0xbf58476d1ce4e5b9
	z = (z ^ (z >> 27)) * 0x94d049bb133111eb
	return z ^ (z >> 31)
}

//go:nosplit
func verifNext(p *uint64) uint64 {
	return verifMix(atomic.Xadd64(p, -7046029254386353131)) // 0x9e3779b97f4a7c15 as int64
}

//go:nosplit
func verifSelRandn(n uint32) uint32 {
	if verifSimOn == 0 {
		return cheaprandn(n)
	}
	return uint32((uint64(uint32(verifNext(&verifSelState))) * uint64(n)) >> 32)
}

//go:nosplit
func verifTimerRand() uint32 {
	if verifSimOn == 0 {
		return cheaprand()
	}
	return uint32(verifNext(&verifTimerState))
}

// VerifSimSeed installs (seed != 0) or removes (seed == 0) the seeded streams.
func VerifSimSeed(seed uint64) {
	if seed == 0 {
		atomic.Store(&verifSimOn, 0)
		return
	}
	atomic.Store64(&verifRandState, verifMix(seed^0x1111111111111111))
	atomic.Store64(&verifSelState, verifMix(seed^0x2222222222222222))
	atomic.Store64(&verifTimerState, verifMix(seed^0x3333333333333333))
	atomic.Store(&verifSimOn, 1)
}

// VerifSimPos reports the stream positions (for determinism self-tests).
func VerifSimPos() (uint64, uint64, uint64) {
	return atomic.Load64(&verifRandState), atomic.Load64(&verifSelState), atomic.Load64(&verifTimerState)
}

// VerifYield is runtime.Gosched with the goroutine re-queued at the tail of
// the LOCAL run queue. Gosched uses the global queue, which the scheduler
// polls every 61st scheduling tick; background goroutines of the runtime that
// wake up on real time shift that phase, and with it the order in which yielded
// goroutines come back - one seed was then no longer one execution on a loaded
// machine.
func VerifYield() {
	goyield()
}
