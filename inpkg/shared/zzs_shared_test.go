package main

import (
	"bufio"
	"bytes"
	"encoding/binary"
	"fmt"
	"io"
	"net"
	"strings"
	"sync"
	"time"

	"verifsim/simnet"
)

// Shared by the application worlds (C19, C20): parsers for the two directions
// of an nsqd client connection (installed as simnet taps) and a stub nsqd that
// accepts, rejects, stalls or drops publishes on command.

// connTap observes one client connection of the application under test.
type connTap struct {
	mu    *sync.Mutex
	ids   map[string][]byte // message id -> body, as delivered on THIS connection (ids are unique per topic only)
	onFin func(t *connTap, id string, body []byte, known bool)
	onReq func(t *connTap, id string, body []byte, known bool)
	onMsg func(t *connTap, id string, body []byte, attempts uint16)
	up    cmdParser
	down  frameParser
	Local net.Addr
}

func tapConn(cl, sv *simnet.Conn, mu *sync.Mutex) *connTap {
	t := &connTap{mu: mu, ids: map[string][]byte{}, Local: cl.LocalAddr()}
	t.up.t, t.down.t = t, t
	cl.TapOut(t.up.feed)
	sv.TapOut(t.down.feed)
	return t
}

type cmdParser struct {
	t    *connTap
	buf  []byte
	body int // bytes of a length-prefixed body still to skip (-1: size word pending)
}

func (p *cmdParser) feed(b []byte) {
	p.buf = append(p.buf, b...)
	for {
		if p.body == -1 {
			if len(p.buf) < 4 {
				return
			}
			p.body = int(binary.BigEndian.Uint32(p.buf[:4]))
			p.buf = p.buf[4:]
		}
		if p.body > 0 {
			if len(p.buf) < p.body {
				p.body -= len(p.buf)
				p.buf = nil
				return
			}
			p.buf = p.buf[p.body:]
			p.body = 0
		}
		i := bytes.IndexByte(p.buf, '\n')
		if i < 0 {
			return
		}
		line := strings.TrimPrefix(string(p.buf[:i]), "  V2") // the magic has no newline of its own
		p.buf = p.buf[i+1:]
		f := strings.Fields(line)
		if len(f) == 0 {
			continue
		}
		switch f[0] {
		case "IDENTIFY", "AUTH", "PUB", "MPUB", "DPUB":
			p.body = -1
		case "FIN", "REQ":
			if len(f) >= 2 {
				p.t.mu.Lock()
				body, known := p.t.ids[f[1]]
				p.t.mu.Unlock()
				if f[0] == "FIN" && p.t.onFin != nil {
					p.t.onFin(p.t, f[1], body, known)
				}
				if f[0] == "REQ" && p.t.onReq != nil {
					p.t.onReq(p.t, f[1], body, known)
				}
			}
		}
	}
}

type frameParser struct {
	t   *connTap
	buf []byte
}

func (p *frameParser) feed(b []byte) {
	p.buf = append(p.buf, b...)
	for len(p.buf) >= 4 {
		size := int(binary.BigEndian.Uint32(p.buf[:4]))
		if len(p.buf) < 4+size {
			return
		}
		fr := p.buf[4 : 4+size]
		p.buf = p.buf[4+size:]
		if size >= 4+26 && binary.BigEndian.Uint32(fr[:4]) == 2 {
			id := string(fr[4+10 : 4+26])
			body := append([]byte(nil), fr[4+26:]...)
			att := binary.BigEndian.Uint16(fr[4+8 : 4+10])
			p.t.mu.Lock()
			p.t.ids[id] = body
			p.t.mu.Unlock()
			if p.t.onMsg != nil {
				p.t.onMsg(p.t, id, body, att)
			}
		}
	}
}

// ---------------------------------------------------------------- stub destination nsqd

const (
	sdAccept = iota
	sdReject      // error frame, connection stays
	sdRejectClose // error frame, then close (what nsqd does on E_PUB_FAILED)
	sdStall       // never answers
	sdReset       // connection reset when a publish arrives
	sdModes
)

type stubPub struct {
	Topic string
	Body  []byte
	Seq   uint64
}

// stubDest is a minimal nsqd: magic, IDENTIFY, NOP, PUB, MPUB, heartbeats are not sent.
type stubDest struct {
	rc       *RunCtx
	addr     string
	ln       *simnet.Listener
	mu       sync.Mutex
	mode     int
	accepted []stubPub
	rejected int
}

func newStubDest(rc *RunCtx, addr string) (*stubDest, error) {
	ln, err := rc.Net.Listen("tcp", addr)
	if err != nil {
		return nil, err
	}
	d := &stubDest{rc: rc, addr: addr, ln: ln}
	go func() {
		for {
			c, err := ln.Accept()
			if err != nil {
				return
			}
			go d.serve(c)
		}
	}()
	return d, nil
}

func (d *stubDest) setMode(m int) {
	d.mu.Lock()
	d.mode = m
	d.mu.Unlock()
}

func (d *stubDest) acceptedBodies() [][]byte {
	d.mu.Lock()
	defer d.mu.Unlock()
	var out [][]byte
	for _, p := range d.accepted {
		out = append(out, p.Body)
	}
	return out
}

func (d *stubDest) has(body []byte) bool {
	d.mu.Lock()
	defer d.mu.Unlock()
	for _, p := range d.accepted {
		if bytes.Equal(p.Body, body) {
			return true
		}
	}
	return false
}

// hasOn: accepted under exactly this topic name
func (d *stubDest) hasOn(body []byte, topic string) bool {
	d.mu.Lock()
	defer d.mu.Unlock()
	for _, p := range d.accepted {
		if p.Topic == topic && bytes.Equal(p.Body, body) {
			return true
		}
	}
	return false
}

func sdFrame(typ int32, data []byte) []byte {
	var b bytes.Buffer
	binary.Write(&b, binary.BigEndian, int32(len(data)+4))
	binary.Write(&b, binary.BigEndian, typ)
	b.Write(data)
	return b.Bytes()
}

func (d *stubDest) serve(c net.Conn) {
	defer c.Close()
	r := bufio.NewReader(c)
	magic := make([]byte, 4)
	if _, err := io.ReadFull(r, magic); err != nil {
		return
	}
	readBody := func() ([]byte, error) {
		var n int32
		if err := binary.Read(r, binary.BigEndian, &n); err != nil {
			return nil, err
		}
		if n < 0 || n > 16<<20 {
			return nil, fmt.Errorf("bad size")
		}
		b := make([]byte, n)
		_, err := io.ReadFull(r, b)
		return b, err
	}
	for {
		line, err := r.ReadString('\n')
		if err != nil {
			return
		}
		f := strings.Fields(line)
		if len(f) == 0 {
			continue
		}
		switch f[0] {
		case "IDENTIFY":
			if _, err := readBody(); err != nil {
				return
			}
			c.Write(sdFrame(0, []byte("OK")))
		case "NOP":
		case "PUB", "MPUB":
			body, err := readBody()
			if err != nil {
				return
			}
			var bodies [][]byte
			if f[0] == "PUB" {
				bodies = [][]byte{body}
			} else {
				br := bytes.NewReader(body)
				var cnt int32
				binary.Read(br, binary.BigEndian, &cnt)
				for i := int32(0); i < cnt; i++ {
					var n int32
					binary.Read(br, binary.BigEndian, &n)
					b := make([]byte, n)
					io.ReadFull(br, b)
					bodies = append(bodies, b)
				}
			}
			d.mu.Lock()
			mode := d.mode
			d.mu.Unlock()
			switch mode {
			case sdAccept:
				d.mu.Lock()
				for _, b := range bodies {
					d.accepted = append(d.accepted, stubPub{Topic: f[1], Body: b, Seq: d.rc.Net.NextSeq()})
				}
				d.mu.Unlock()
				c.Write(sdFrame(0, []byte("OK")))
			case sdReject:
				d.mu.Lock()
				d.rejected++
				d.mu.Unlock()
				c.Write(sdFrame(1, []byte("E_PUB_FAILED PUB failed stub")))
			case sdRejectClose:
				d.mu.Lock()
				d.rejected++
				d.mu.Unlock()
				c.Write(sdFrame(1, []byte("E_PUB_FAILED PUB failed stub")))
				return
			case sdStall:
				time.Sleep(10 * time.Minute)
				return
			case sdReset:
				if sc, ok := c.(*simnet.Conn); ok {
					sc.Reset()
				}
				return
			}
		default:
			c.Write(sdFrame(1, []byte("E_INVALID stub")))
			return
		}
	}
}
