package main

import (
	"bytes"
	"encoding/binary"
	"encoding/json"
	"fmt"
	"os"
	"path/filepath"
	"strings"
	"testing/synctest"
	"time"
)

func init() { registerWorld("lookupdapp", lookupdAppWorld) }

// The nsqlookupd application world (configuration part of C14). The real
// program.Start() of apps/nsqlookupd - flag set, TOML config file,
// options.Resolve, nsqlookupd.New, Main - is given its inactivity timeout and
// tombstone lifetime as flags, config-file keys, or both with the flags
// winning. A producer then registers a topic; the answers of /lookup must
// change exactly when the configured durations have passed: listed up to the
// inactivity timeout after its last ping and gone just after; hidden by a
// tombstone up to the tombstone lifetime and back just after.

type LACfg struct {
	Inactive     string `json:"inactive"` // "" = default 300s
	InactiveVia  string `json:"inactive_via"`
	Tombstone    string `json:"tombstone"` // "" = default 45s
	TombstoneVia string `json:"tombstone_via"`
	YieldProb    uint32 `json:"yield_prob"`
}

func genLACfg(rc *RunCtx) LACfg {
	r := rc.Rng
	return LACfg{Inactive: r.PickS("", "5s", "40s", "10m0s"), InactiveVia: r.PickS("flag", "file", "both"),
		Tombstone: r.PickS("", "2s", "20s", "1m30s"), TombstoneVia: r.PickS("flag", "file", "both"), YieldProb: uint32(r.Pick(0, 1024))}
}

func lookupdAppWorld(rc *RunCtx) {
	var cfg LACfg
	if rc.Replay != nil {
		if err := json.Unmarshal(rc.Replay.Cfg, &cfg); err != nil {
			panic(err)
		}
	} else {
		cfg = genLACfg(rc)
	}
	if rc.GenOnly(cfg, []Op{{Kind: "probe"}}) {
		return
	}
	rc.Sched.Prob = cfg.YieldProb
	args := []string{"nsqlookupd", "--tcp-address=127.0.0.1:4160", "--http-address=127.0.0.1:4161", "--broadcast-address=lookupd.sim"}
	var file []string
	put := func(name, val, via, other string) {
		if val == "" {
			return
		}
		key := strings.ReplaceAll(name, "-", "_")
		switch via {
		case "flag":
			args = append(args, "--"+name+"="+val)
		case "file":
			file = append(file, fmt.Sprintf("%s = %q", key, val))
		case "both":
			file = append(file, fmt.Sprintf("%s = %q", key, other))
			args = append(args, "--"+name+"="+val)
		}
	}
	put("inactive-producer-timeout", cfg.Inactive, cfg.InactiveVia, "7m0s")
	put("tombstone-lifetime", cfg.Tombstone, cfg.TombstoneVia, "7s")
	if len(file) > 0 {
		p := filepath.Join(rc.Dir, "nsqlookupd.cfg")
		if err := os.WriteFile(p, []byte(strings.Join(file, "\n")+"\n"), 0644); err != nil {
			panic("harness: " + err.Error())
		}
		args = append(args, "--config="+p)
	}
	how := fmt.Sprintf("%v and config file %q", args[4:], file)
	rc.Logf("args %v file %q", args[1:], file)
	saved := os.Args
	os.Args = args
	prg := &program{}
	err := prg.Start()
	os.Args = saved
	if err != nil {
		rc.Violate("C14", "startup-failed", "program.Start with %s: %v", how, err)
		return
	}
	rc.Defer(func() { prg.Stop(); synctest.Wait() })
	synctest.Wait()
	inactive, tomb := 300*time.Second, 45*time.Second
	if cfg.Inactive != "" {
		inactive, _ = time.ParseDuration(cfg.Inactive)
	}
	if cfg.Tombstone != "" {
		tomb, _ = time.ParseDuration(cfg.Tombstone)
	}
	// a producer that registers topic t
	cl, err := dialV2(rc, "prod", "127.0.0.1:4160", "  V1")
	if err != nil {
		rc.Violate("C14", "refused", "connect: %v", err)
		return
	}
	cl.RawMode = true
	cl.Start()
	defer func() { cl.Close(); synctest.Wait() }()
	body := `{"broadcast_address":"nsqd0.sim","tcp_port":4150,"http_port":4151,"version":"1.3.0-sim","hostname":"host0"}`
	var b bytes.Buffer
	b.WriteString("IDENTIFY\n")
	binary.Write(&b, binary.BigEndian, int32(len(body)))
	b.WriteString(body)
	cl.Send(b.Bytes())
	synctest.Wait()
	cl.Send([]byte("REGISTER t\n"))
	synctest.Wait()
	listed := func() (bool, int) {
		r := httpDo(rc, "GET", "127.0.0.1:4161", "/lookup?topic=t", nil, nil, nil, 30*time.Second)
		if r.Err != nil || r.Status != 200 {
			return false, r.Status
		}
		var lr struct {
			Producers []struct {
				BroadcastAddress string `json:"broadcast_address"`
			} `json:"producers"`
		}
		json.Unmarshal(r.Body, &lr)
		return len(lr.Producers) == 1 && lr.Producers[0].BroadcastAddress == "nsqd0.sim", r.Status
	}
	ping := func() { cl.Send([]byte("PING\n")); synctest.Wait() }
	expect := func(want bool, what string) bool {
		rc.Probe("config_probes")
		got, st := listed()
		if got != want {
			rc.Violate("C14", "lookup-producers", "configured with %s: %s: /lookup (status %d) lists the producer=%v, expected %v", how, what, st, got, want)
			return false
		}
		return true
	}
	if !expect(true, "right after REGISTER") {
		return
	}
	// tombstone: hidden for the tombstone lifetime (the producer keeps pinging so that it stays active)
	r := httpDo(rc, "POST", "127.0.0.1:4161", "/topic/tombstone?topic=t&node=nsqd0.sim:4151", nil, nil, nil, 30*time.Second)
	if r.Err != nil || r.Status != 200 {
		rc.Violate("C14", "admin-status", "tombstone answered %d %v", r.Status, r.Err)
		return
	}
	start := time.Now()
	step := inactive / 2
	advanceTo := func(target time.Duration) {
		for time.Since(start) < target {
			d := target - time.Since(start)
			if d > step {
				d = step
			}
			time.Sleep(d)
			if time.Since(start) < target {
				ping()
			}
		}
	}
	advanceTo(tomb - time.Millisecond)
	ping()
	if !expect(false, fmt.Sprintf("1ms before the tombstone lifetime %v has passed", tomb)) {
		return
	}
	advanceTo(tomb + time.Millisecond)
	ping()
	if !expect(true, fmt.Sprintf("1ms after the tombstone lifetime %v has passed", tomb)) {
		return
	}
	// inactivity: listed until the timeout after the last ping, then gone
	last := time.Now()
	time.Sleep(inactive - time.Millisecond)
	if !expect(true, fmt.Sprintf("%v after the last ping (inactive-producer-timeout %v)", time.Since(last), inactive)) {
		return
	}
	time.Sleep(2 * time.Millisecond)
	if !expect(false, fmt.Sprintf("%v after the last ping (inactive-producer-timeout %v)", time.Since(last), inactive)) {
		return
	}
	rc.Res.Ops = 1
	rc.Res.Nontrivial = true
	rc.Res.State = fmt.Sprintf("%+v", cfg)
	sample := map[string]interface{}{"seed": rc.Seed, "args": args[4:], "config_file": file}
	rc.Res.Sample, _ = json.Marshal(sample)
}
