package main

import (
	"bytes"
	"encoding/json"
	"flag"
	"fmt"
	"net"
	"os"
	"sort"
	"sync"
	"syscall"
	"testing/synctest"
	"time"

	"github.com/nsqio/nsq/internal/app"
	"github.com/nsqio/nsq/nsqd"

	"verifsim/simnet"
	"verifsim/simos"
	"verifsim/simsignal"
)

func init() { registerWorld("nsq2nsq", n2nRun) }

// The nsq_to_nsq world (C20, relays). The real main() of nsq_to_nsq consumes
// from a real nsqd and publishes to 1-3 stub nsqds that accept, reject, stall,
// reset or refuse on command. Taps on the application's source connections
// show every FIN and REQ it writes.
//
//   F  when a FIN for source message m is written, a destination has already
//      accepted m's body (unless a requested filter drops m);
//   L  once every destination accepts again, every source message (that
//      passes the filter) arrives at least once within the drain bound.

type N2NCfg struct {
	Mode        string `json:"mode"`
	NDest       int    `json:"destinations"`
	MaxInFlight int    `json:"max_in_flight"`
	Filter      int    `json:"filter"` // 0 none, 1 require-json-field, 2 field + value
	DestTopic   bool   `json:"destination_topic"`
	Topics      int    `json:"topics"`
	MsgTOMs     int64  `json:"msg_timeout_ms"`
	YieldProb   uint32 `json:"yield_prob"`
}

type n2nMsg struct {
	n       int
	body    []byte
	acked   bool
	pass    bool // passes the requested filter
	finned  bool
	reqs    int
	topic   string // source topic
}

type n2nWorld struct {
	rc     *RunCtx
	cfg    N2NCfg
	n      *nsqd.NSQD
	dests  []*stubDest
	mu     sync.Mutex
	msgs   map[string]*n2nMsg
	nbody  int
	pub    *V2Client
	sigFrom, sigTo int
	done   chan struct{}
	exited int
}

func genN2NCfg(rc *RunCtx) N2NCfg {
	r := rc.Rng
	return N2NCfg{Mode: r.PickS("round-robin", "hostpool", "epsilon-greedy"), NDest: r.Pick(1, 2, 3), MaxInFlight: r.Pick(1, 5, 200),
		Filter: r.Pick(0, 0, 0, 1, 2), DestTopic: r.Chance(1, 3), Topics: r.Pick(1, 1, 2), MsgTOMs: int64(r.Pick(5000, 60000)), YieldProb: uint32(r.Pick(0, 1024, 4096))}
}

func genN2NOps(rc *RunCtx, c N2NCfg) []Op {
	r := rc.Rng
	n := r.Range(6, 40)
	var ops []Op
	add := func(o Op) { o.Uid = len(ops); ops = append(ops, o) }
	for len(ops) < n {
		switch r.Weighted([]int{30, 20, 18, 5, 4}) {
		case 0:
			add(Op{Kind: "pub", A: int64(r.Range(1, 6)), B: int64(r.Intn(2)), C: int64(r.Intn(3))})
		case 1:
			add(Op{Kind: "adv", A: int64(r.Pick(10, 500, 2000, 61000, 95000, 200000))})
		case 2: // destination behaviour: A = destination, B = mode (sdModes = refuse connections)
			add(Op{Kind: "dest", A: int64(r.Intn(3)), B: int64(r.Intn(sdModes + 1))})
		case 3:
			add(Op{Kind: "heal"})
		case 4:
			add(Op{Kind: "netreset"})
		}
	}
	return ops
}

func n2nms(n int64) time.Duration { return time.Duration(n) * time.Millisecond }

func n2nRun(rc *RunCtx) {
	w := &n2nWorld{rc: rc, msgs: map[string]*n2nMsg{}, exited: -1}
	var ops []Op
	if rc.Replay != nil {
		if err := json.Unmarshal(rc.Replay.Cfg, &w.cfg); err != nil {
			panic(err)
		}
		ops = rc.Replay.Ops
	} else {
		w.cfg = genN2NCfg(rc)
		ops = genN2NOps(rc, w.cfg)
	}
	c := w.cfg
	if rc.GenOnly(c, ops) {
		return
	}
	rc.Sched.Prob = c.YieldProb
	os.MkdirAll(rc.Dir+"/data", 0755)
	o := nsqd.NewOptions()
	o.Logger = &simLogger{rc: rc, name: "nsqd"}
	o.TCPAddress, o.HTTPAddress, o.HTTPSAddress = "127.0.0.1:4150", "127.0.0.1:4151", ""
	o.BroadcastAddress = "127.0.0.1"
	o.DataPath = rc.Dir + "/data"
	o.MsgTimeout = n2nms(c.MsgTOMs)
	o.MaxReqTimeout = time.Hour
	o.QueueScanInterval = 100 * time.Millisecond
	n, err := nsqd.New(o)
	if err != nil {
		rc.Violate(rc.Prop, "startup-failed", "%v", err)
		return
	}
	n.LoadMetadata()
	n.PersistMetadata()
	w.n = n
	go n.Main()
	synctest.Wait()
	args := []string{"nsq_to_nsq", "--topic=src0", "--nsqd-tcp-address=127.0.0.1:4150", "--mode=" + c.Mode,
		fmt.Sprintf("--max-in-flight=%d", c.MaxInFlight), "--status-every=0",
		"--consumer-opt=local_addr,10.9.1.1:0", "--consumer-opt=dial_timeout,1s", "--producer-opt=dial_timeout,1s"}
	if c.Topics > 1 {
		args = append(args, "--topic=src1")
	}
	if c.DestTopic {
		args = append(args, "--destination-topic=sink")
	}
	switch c.Filter {
	case 1:
		args = append(args, "--require-json-field=keep")
	case 2:
		args = append(args, "--require-json-field=keep", "--require-json-value=yes")
	}
	for i := 0; i < c.NDest; i++ {
		d, err := newStubDest(rc, fmt.Sprintf("127.0.0.1:%d", 4250+i))
		if err != nil {
			panic("harness: " + err.Error())
		}
		w.dests = append(w.dests, d)
		args = append(args, "--destination-nsqd-tcp-address="+d.addr)
	}
	rc.Net.OnConnect = func(cl, sv *simnet.Conn) {
		ta, ok := cl.LocalAddr().(*net.TCPAddr)
		if !ok || !ta.IP.Equal(net.IPv4(10, 9, 1, 1)) {
			return
		}
		t := tapConn(cl, sv, &w.mu)
		t.onFin = w.onFin
		t.onReq = func(_ *connTap, id string, body []byte, known bool) {
			w.mu.Lock()
			if m := w.msgs[string(body)]; m != nil {
				m.reqs++
			}
			w.mu.Unlock()
			rc.Probe("req_seen")
		}
	}
	simos.Install(&simos.Hooks{Exit: func(code int) { w.exited = code }})
	simsignal.Activate(true)
	savedArgs, savedFlags := os.Args, flag.CommandLine
	rc.Defer(func() {
		w.stopApp()
		os.Args, flag.CommandLine = savedArgs, savedFlags
		simsignal.Activate(false)
		simos.Install(nil)
		if w.pub != nil {
			w.pub.Close()
		}
		for _, d := range w.dests {
			d.ln.Close()
		}
		n.Exit()
		for _, sc := range rc.Net.Conns() {
			sc.Reset()
		}
		synctest.Wait()
	})
	// a fresh command line for main(), bound to the package's flag variables
	fs := flag.NewFlagSet("nsq_to_nsq", flag.ContinueOnError)
	flag.CommandLine = fs
	*showVersion, *channel, *destTopic, *maxInFlight, *statusEvery, *mode = false, "nsq_to_nsq", "", 200, 250, "hostpool"
	*requireJSONField, *requireJSONValue = "", ""
	nsqdTCPAddrs, lookupdHTTPAddrs, destNsqdTCPAddrs, whitelistJSONFields, topics = app.StringArray{}, app.StringArray{}, app.StringArray{}, app.StringArray{}, app.StringArray{}
	fs.BoolVar(showVersion, "version", false, "")
	fs.StringVar(channel, "channel", "nsq_to_nsq", "")
	fs.StringVar(destTopic, "destination-topic", "", "")
	fs.IntVar(maxInFlight, "max-in-flight", 200, "")
	fs.IntVar(statusEvery, "status-every", 250, "")
	fs.StringVar(mode, "mode", "hostpool", "")
	fs.StringVar(requireJSONField, "require-json-field", "", "")
	fs.StringVar(requireJSONValue, "require-json-value", "", "")
	fs.Var(&nsqdTCPAddrs, "nsqd-tcp-address", "")
	fs.Var(&destNsqdTCPAddrs, "destination-nsqd-tcp-address", "")
	fs.Var(&lookupdHTTPAddrs, "lookupd-http-address", "")
	fs.Var(&topics, "topic", "")
	fs.Var(&whitelistJSONFields, "whitelist-json-field", "")
	os.Args = args
	rc.Logf("cfg %+v", c)
	rc.Logf("starting nsq_to_nsq %v", args[1:])
	w.sigFrom = simsignal.Mark()
	w.done = make(chan struct{})
	go func() {
		defer close(w.done)
		main()
	}()
	synctest.Wait()
	w.sigTo = simsignal.Mark()

	for i, op := range ops {
		rc.step = i + 1
		rc.Reseed(op.Uid)
		rc.opsKind[op.Kind]++
		rc.Logf("op %d uid=%d %s a=%d b=%d c=%d", i, op.Uid, op.Kind, op.A, op.B, op.C)
		switch op.Kind {
		case "pub":
			w.opPub(op)
		case "adv":
			time.Sleep(n2nms(op.A))
		case "dest":
			d := w.dests[int(uint64(op.A)%uint64(len(w.dests)))]
			if int(op.B) >= sdModes {
				rc.Net.SetRefuse(d.addr, simnet.RefuseRST)
				rc.Fault("dest_refuse")
			} else {
				rc.Net.SetRefuse(d.addr, simnet.RefuseNone)
				d.setMode(int(op.B))
				if op.B != sdAccept {
					rc.Fault([]string{"", "dest_reject", "dest_reject_close", "dest_stall", "dest_reset"}[op.B])
				}
			}
		case "heal":
			w.heal()
		case "netreset":
			for _, sc := range rc.Net.Conns() {
				if ta, ok := sc.LocalAddr().(*net.TCPAddr); ok && ta.IP.Equal(net.IPv4(10, 9, 1, 1)) && !sc.IsDead() {
					sc.Reset()
					rc.Fault("source_conn_reset")
				}
			}
		}
		synctest.Wait()
		if w.exited >= 0 && !rc.Failed() {
			rc.Violate("C20", "relay-exited", "nsq_to_nsq exited with status %d", w.exited)
		}
		if rc.Failed() {
			break
		}
	}
	if !rc.Failed() {
		w.drain()
	}
	rc.Res.Ops = len(ops)
	rc.Res.Nontrivial = rc.probes["fin_checked"] > 0
	rc.Res.State = fmt.Sprintf("%016x", fnv([]byte(fmt.Sprint(c, len(w.msgs), rc.probes["fin_checked"], rc.probes["req_seen"]))))
	hd := ops
	if len(hd) > 12 {
		hd = hd[:12]
	}
	sample := map[string]interface{}{"seed": rc.Seed, "cfg": c, "ops_head": hd, "n_ops": len(ops)}
	rc.Res.Sample, _ = json.Marshal(sample)
	if rc.Failed() {
		rc.writeReplay(c, ops)
	}
}

func (w *n2nWorld) heal() {
	for _, d := range w.dests {
		w.rc.Net.SetRefuse(d.addr, simnet.RefuseNone)
		d.setMode(sdAccept)
	}
	w.rc.Probe("heals")
}

func (w *n2nWorld) stopApp() {
	if w.done == nil {
		return
	}
	simsignal.DeliverRange(w.sigFrom, w.sigTo, syscall.SIGTERM)
	t := time.NewTimer(5 * time.Minute)
	select {
	case <-w.done:
	case <-t.C:
	}
	t.Stop()
	w.done = nil
}

func (w *n2nWorld) opPub(op Op) {
	if w.pub == nil || w.pub.Closed() {
		p, err := dialV2(w.rc, "pub", "127.0.0.1:4150", "  V2")
		if err != nil {
			return
		}
		p.Start()
		w.pub = p
	}
	topic := "src0"
	if w.cfg.Topics > 1 && op.B == 1 {
		topic = "src1"
	}
	for i := int64(0); i < op.A; i++ {
		w.nbody++
		m := &n2nMsg{n: w.nbody, pass: true, topic: topic}
		if w.cfg.Filter == 0 {
			m.body = []byte(fmt.Sprintf("m%05d|%s", w.nbody, []string{"plain", "{\"not\":\"json", "\x00\xff\n"}[op.C%3]))
		} else {
			// JSON documents with and without the required field / value
			switch op.C % 3 {
			case 0:
				m.body = []byte(fmt.Sprintf(`{"n":"m%05d","keep":"yes"}`, w.nbody))
			case 1:
				m.body = []byte(fmt.Sprintf(`{"n":"m%05d","keep":"no"}`, w.nbody))
				m.pass = w.cfg.Filter == 1
			default:
				m.body = []byte(fmt.Sprintf(`{"n":"m%05d","other":1}`, w.nbody))
				m.pass = false
			}
		}
		w.mu.Lock()
		w.msgs[string(m.body)] = m
		w.mu.Unlock()
		w.pub.Cmd("PUB "+topic, m.body)
		f, ok := w.pub.WaitFrame(30*time.Second, isNonMsg)
		if ok && f.Type == frameResponse && string(f.Data) == "OK" {
			m.acked = true
		}
	}
}

// accepted: some destination has the body - under the topic it belongs to: --destination-topic
// if given, else the name of the topic it was consumed from
func (w *n2nWorld) accepted(m *n2nMsg) bool {
	want := "sink"
	if !w.cfg.DestTopic {
		want = m.topic
	}
	for _, d := range w.dests {
		if d.hasOn(m.body, want) {
			return true
		}
	}
	return false
}

// onFin: invariant F.
func (w *n2nWorld) onFin(_ *connTap, id string, body []byte, known bool) {
	if !known {
		return
	}
	w.mu.Lock()
	m := w.msgs[string(body)]
	w.mu.Unlock()
	if m == nil {
		return
	}
	w.rc.Probe("fin_checked")
	if m.pass && !w.accepted(m) {
		w.rc.Violate("C20", "finished-before-accepted", "nsq_to_nsq wrote FIN for m%05d (requeued %d times before) although no destination has accepted its body", m.n, m.reqs)
		return
	}
	m.finned = true
}

// drain: invariant L.
func (w *n2nWorld) drain() {
	w.heal()
	synctest.Wait()
	missing := func() []*n2nMsg {
		var out []*n2nMsg
		w.mu.Lock()
		for _, m := range w.msgs {
			if m.acked && m.pass && !w.accepted(m) {
				out = append(out, m)
			}
		}
		w.mu.Unlock()
		sort.Slice(out, func(i, j int) bool { return out[i].n < out[j].n })
		return out
	}
	// requeue delays grow with the attempts (90 s x attempts, at most 15 min), connection
	// back-off up to 2 min: four hours of healthy destinations are far beyond all of them
	for i := 0; i < 48 && len(missing()) > 0; i++ {
		time.Sleep(5 * time.Minute)
		synctest.Wait()
	}
	if ms := missing(); len(ms) > 0 {
		st := w.n.GetStats("", "", false)
		owed := ""
		for _, t := range st.Topics {
			for _, ch := range t.Channels {
				owed += fmt.Sprintf(" %s/%s depth=%d inflight=%d deferred=%d", t.TopicName, ch.ChannelName, ch.Depth, ch.InFlightCount, ch.DeferredCount)
			}
		}
		w.rc.Violate("C20", "message-never-arrived", "%d source messages never reached a destination although all destinations accepted for 4 simulated hours (first m%05d, finished=%v, requeued %d times); source channel:%s", len(ms), ms[0].n, ms[0].finned, ms[0].reqs, owed)
		return
	}
	// unmodified: everything a destination accepted is a published body
	for _, d := range w.dests {
		for _, b := range d.acceptedBodies() {
			w.mu.Lock()
			_, ok := w.msgs[string(b)]
			w.mu.Unlock()
			if !ok {
				w.rc.Violate("C20", "forwarded-body-modified", "destination %s accepted %q which is not a published body", d.addr, bytes.TrimSpace(b))
				return
			}
		}
	}
	w.rc.Probe("runs_fully_forwarded")
}
