package main

import (
	"bytes"
	"compress/gzip"
	"encoding/json"
	"fmt"
	"io"
	"net"
	"os"
	"path/filepath"
	"sort"
	"strings"
	"sync"
	"syscall"
	"testing/synctest"
	"time"

	"github.com/nsqio/nsq/nsqd"

	"verifsim/simnet"
	"verifsim/simos"
	"verifsim/simsignal"
)

func init() { registerWorld("tofile", tofileWorld) }

// The nsq_to_file world (C19). The real TopicDiscoverer/FileLogger/go-nsq
// consumer of the application run in the bubble against a real nsqd; its file
// system calls go through simos, its connections through simnet.
//
// "A stop at any instant": the obligations of the application only grow at
// the instants it writes a FIN, and the files only change at its file-system
// calls. Both kinds of instants are intercepted (tap on the connection, simos
// hooks), and the invariants are evaluated at every one of them:
//
//   A  when a FIN for message m is written to the connection, body+"\n" lies
//      inside the fsynced prefix of some file (for gzip: inside complete
//      members of that prefix);
//   B  after every rename/link/remove/create/truncate every message whose FIN
//      was written so far is (still) in a readable file;
//   C  a file that existed before an instance started (earlier instance's
//      output, or a colliding name planted by the harness) is never truncated,
//      overwritten or lost: its content remains a prefix of the file at that
//      path (appending is what the non-exclusive mode does).
//
// So a SIGKILL at any instant is covered without restarting anything; crash
// and TERM operations additionally start a new instance on what is on disk.

type TFCfg struct {
	Gzip        bool   `json:"gzip"`
	GzipLevel   int    `json:"gzip_level"`
	RotateSize  int64  `json:"rotate_size"`
	RotateMs    int64  `json:"rotate_interval_ms"`
	SyncMs      int64  `json:"sync_interval_ms"`
	DateFmt     string `json:"datetime_format"`
	WorkDir     bool   `json:"work_dir"`
	SkipEmpty   bool   `json:"skip_empty_files"`
	MaxInFlight int    `json:"max_in_flight"`
	MemQueue    int64  `json:"mem_queue_size"`
	MsgTOMs     int64  `json:"msg_timeout_ms"`
	Plant       int    `json:"planted_collisions"`
	DiskFaults  int    `json:"disk_faults"` // one in N mutating calls of the application fails (0 = never)
	YieldProb   uint32 `json:"yield_prob"`
	Topics      int    `json:"topics"`
}

type tfInstance struct {
	idx      int
	ip       net.IP
	sigFrom  int // registrations [sigFrom, sigTo) of simsignal belong to this process
	sigTo    int
	done     chan struct{}
	exited   bool // called os.Exit
	termSent bool
}

type tfMsg struct {
	n      int
	body   []byte
	topic  string
	acked  bool
	finned bool
}

type tfWorld struct {
	rc      *RunCtx
	cfg     TFCfg
	n       *nsqd.NSQD
	out     string
	work    string
	inst    *tfInstance
	ninst   int
	mu      sync.Mutex
	msgs    map[string]*tfMsg // by body
	byID    map[string]*tfMsg // nsqd message id -> message
	nbody   int
	synced  map[string]int64 // path -> length covered by the last successful fsync
	frozen  bool             // a killed process: every file-system call fails from now on
	killIn  int              // >0: freeze at the killIn-th mutating call from now
	old     map[string][]byte // files that existed when the current instance started
	movedOld map[string]bool  // old files that were hard-linked to a new name
	injRng  *PRNG
	pub     *V2Client
	exitReq bool
}

func genTFCfg(rc *RunCtx) TFCfg {
	r := rc.Rng
	c := TFCfg{}
	c.Gzip = r.Chance(1, 2)
	c.GzipLevel = r.Range(1, 9)
	c.RotateSize = int64(r.Pick(0, 0, 40, 300))
	c.RotateMs = int64(r.Pick(0, 0, 700, 5000))
	c.SyncMs = int64(r.Pick(50, 500, 3000, 30000))
	c.DateFmt = r.PickS("%Y-%m-%d_%H", "%Y-%m-%d_%H", "%H%M", "%H%M%S", "%Y/%m/%d/%H%M")
	c.WorkDir = r.Chance(1, 2)
	c.SkipEmpty = r.Chance(1, 3)
	c.MaxInFlight = r.Pick(1, 2, 5, 20, 200)
	c.MemQueue = int64(r.Pick(0, 3, 10000))
	c.MsgTOMs = int64(r.Pick(2000, 10000, 60000))
	c.Plant = r.Pick(0, 0, 1, 3)
	c.DiskFaults = r.Pick(0, 0, 0, 40, 200)
	c.YieldProb = uint32(r.Pick(0, 1024, 4096))
	c.Topics = r.Pick(1, 1, 2, 3) // 3: the second topic is the ephemeral namesake of the first (logs, logs#ephemeral)
	return c
}

func genTFOps(rc *RunCtx, c TFCfg) []Op {
	r := rc.Rng
	n := r.Range(8, 45)
	var ops []Op
	add := func(o Op) { o.Uid = len(ops); ops = append(ops, o) }
	for len(ops) < n {
		switch r.Weighted([]int{30, 22, 6, 5, 6, 4, 5}) {
		case 0:
			add(Op{Kind: "pub", A: int64(r.Range(1, 8)), B: int64(r.Intn(2)), C: int64(r.Intn(4))})
		case 1:
			add(Op{Kind: "adv", A: int64(r.Pick(10, 60, 300, 1000, 3500, 61000, int(c.SyncMs), int(c.RotateMs)+1))})
		case 2:
			add(Op{Kind: "hup"})
		case 3:
			add(Op{Kind: "term"})
		case 4: // kill at the A-th file-system call from now (0: right now)
			add(Op{Kind: "kill", A: int64(r.Pick(0, 1, 2, 3, 5, 8, 13))})
		case 5:
			add(Op{Kind: "netreset"})
		case 6:
			add(Op{Kind: "plant", A: int64(r.Intn(3))})
		}
	}
	return ops
}

func tfms(n int64) time.Duration { return time.Duration(n) * time.Millisecond }

func tofileWorld(rc *RunCtx) {
	w := &tfWorld{rc: rc, msgs: map[string]*tfMsg{}, byID: map[string]*tfMsg{}, synced: map[string]int64{}, old: map[string][]byte{}, movedOld: map[string]bool{}}
	var ops []Op
	if rc.Replay != nil {
		if err := json.Unmarshal(rc.Replay.Cfg, &w.cfg); err != nil {
			panic(err)
		}
		ops = rc.Replay.Ops
	} else {
		w.cfg = genTFCfg(rc)
		ops = genTFOps(rc, w.cfg)
	}
	c := w.cfg
	if rc.GenOnly(c, ops) {
		return
	}
	rc.Sched.Prob = c.YieldProb
	w.injRng = NewPRNG(rc.Seed ^ 0x1919)
	w.out = filepath.Join(rc.Dir, "out")
	w.work = w.out
	if c.WorkDir {
		w.work = filepath.Join(rc.Dir, "work")
	}
	os.MkdirAll(w.out, 0755)
	os.MkdirAll(w.work, 0755)
	os.MkdirAll(filepath.Join(rc.Dir, "data"), 0755)

	o := nsqd.NewOptions()
	o.Logger = &simLogger{rc: rc, name: "nsqd"}
	o.TCPAddress, o.HTTPAddress, o.HTTPSAddress = "127.0.0.1:4150", "127.0.0.1:4151", ""
	o.BroadcastAddress = "127.0.0.1"
	o.DataPath = filepath.Join(rc.Dir, "data")
	o.MemQueueSize = c.MemQueue
	o.MsgTimeout = tfms(c.MsgTOMs)
	o.QueueScanInterval = 100 * time.Millisecond
	o.ClientTimeout = 60 * time.Second
	n, err := nsqd.New(o)
	if err != nil {
		rc.Violate(rc.Prop, "startup-failed", "%v", err)
		return
	}
	n.LoadMetadata()
	n.PersistMetadata()
	w.n = n
	go n.Main()
	synctest.Wait()

	// taps on every connection the application makes (source address 10.9.0.x)
	rc.Net.OnConnect = func(cl, sv *simnet.Conn) {
		ta, ok := cl.LocalAddr().(*net.TCPAddr)
		if !ok || len(ta.IP.To4()) != 4 || ta.IP.To4()[0] != 10 {
			return
		}
		t := tapConn(cl, sv, &w.mu)
		t.onFin = func(_ *connTap, id string, body []byte, known bool) {
			if !known {
				return
			}
			w.mu.Lock()
			m := w.msgs[string(body)]
			w.mu.Unlock()
			w.onFin(m, id)
		}
	}
	simos.Install(&simos.Hooks{Before: w.before, After: w.after, Exit: w.exit})
	simsignal.Activate(true)
	savedArgs := os.Args
	rc.Defer(func() { os.Args = savedArgs; simsignal.Activate(false) })
	rc.Defer(func() {
		w.exitReq = true
		w.stopInstance(true)
		simos.Install(nil)
		if w.pub != nil {
			w.pub.Close()
		}
		n.Exit()
		synctest.Wait()
	})
	rc.Logf("cfg %+v", c)
	for i := 0; i < c.Plant; i++ {
		w.plant(int64(i))
	}
	w.startInstance()
	for i, op := range ops {
		rc.step = i + 1
		rc.Reseed(op.Uid)
		rc.opsKind[op.Kind]++
		rc.Logf("op %d uid=%d %s a=%d b=%d c=%d", i, op.Uid, op.Kind, op.A, op.B, op.C)
		rc.MaybeGC()
		switch op.Kind {
		case "pub":
			w.opPub(op)
		case "adv":
			time.Sleep(tfms(op.A))
		case "hup":
			if w.inst != nil && !w.inst.exited {
				if simsignal.DeliverRange(w.inst.sigFrom, w.inst.sigTo, syscall.SIGHUP) > 0 {
					rc.Probe("sighup")
				}
			}
		case "term":
			w.stopInstance(false)
			w.checkAllFinned("after SIGTERM")
			w.startInstance()
		case "kill":
			if op.A == 0 {
				w.kill()
				w.startInstance()
			} else {
				w.mu.Lock()
				w.killIn = int(op.A)
				w.mu.Unlock()
			}
		case "netreset":
			if w.inst != nil {
				for _, sc := range rc.Net.Conns() {
					if ta, ok := sc.LocalAddr().(*net.TCPAddr); ok && ta.IP.Equal(w.inst.ip) && !sc.IsDead() {
						sc.Reset()
						rc.Fault("conn_reset")
					}
				}
			}
		case "plant":
			w.plant(op.A)
		}
		synctest.Wait()
		// an instance that died (injected disk error, kill countdown) is restarted
		w.mu.Lock()
		dead := w.frozen || (w.inst != nil && w.inst.exited)
		w.mu.Unlock()
		if dead && !rc.Failed() {
			w.kill()
			w.startInstance()
		}
		if rc.Failed() {
			break
		}
		w.checkAllFinned("after step")
		if rc.Failed() {
			break
		}
	}
	if !rc.Failed() {
		// drain: with nothing failing any more everything published ends up in files
		w.cfg.DiskFaults = 0
		time.Sleep(tfms(c.MsgTOMs) + tfms(c.SyncMs) + 3*time.Second)
		synctest.Wait()
		time.Sleep(tfms(c.MsgTOMs) + tfms(c.SyncMs) + 3*time.Second)
		synctest.Wait()
		w.stopInstance(false)
		w.checkAllFinned("at the end")
		w.finalAccounting()
	}
	rc.Res.Ops = len(ops)
	rc.Res.Nontrivial = rc.probes["fin_checked"] > 0
	rc.Res.State = fmt.Sprintf("%016x", fnv([]byte(fmt.Sprint(c, len(w.msgs), rc.probes["fin_checked"], w.ninst))))
	hd := ops
	if len(hd) > 12 {
		hd = hd[:12]
	}
	sample := map[string]interface{}{"seed": rc.Seed, "cfg": c, "ops_head": hd, "n_ops": len(ops)}
	rc.Res.Sample, _ = json.Marshal(sample)
	if rc.Failed() {
		rc.writeReplay(c, ops)
	}
}

// ---------------------------------------------------------------- the application

// argv: the command line of one nsq_to_file process.
func (w *tfWorld) argv(ip net.IP) []string {
	c := w.cfg
	a := []string{"nsq_to_file", "--topic=logs", "--nsqd-tcp-address=127.0.0.1:4150",
		"--output-dir=" + w.out, "--work-dir=" + w.work, "--host-identifier=simhost",
		"--datetime-format=" + c.DateFmt, fmt.Sprintf("--max-in-flight=%d", c.MaxInFlight),
		fmt.Sprintf("--gzip-level=%d", c.GzipLevel), fmt.Sprintf("--rotate-size=%d", c.RotateSize),
		"--rotate-interval=" + tfms(c.RotateMs).String(), "--sync-interval=" + tfms(c.SyncMs).String(),
		"--log-level=info",
		"--consumer-opt=local_addr," + ip.String() + ":0", "--consumer-opt=dial_timeout,1s"}
	if c.Topics > 1 {
		a = append(a, "--topic="+w.topic2())
	}
	if c.Gzip {
		a = append(a, "--gzip")
	}
	if c.SkipEmpty {
		a = append(a, "--skip-empty-files")
	}
	return a
}

func (w *tfWorld) topic2() string {
	if w.cfg.Topics == 3 {
		return "logs#ephemeral"
	}
	return "audit"
}

// options: what main() derives from that command line (used to compute file names to plant).
func (w *tfWorld) options() *Options {
	c := w.cfg
	opts := NewOptions()
	opts.Topics = []string{"logs"}
	if c.Topics > 1 {
		opts.Topics = append(opts.Topics, w.topic2())
	}
	opts.OutputDir, opts.WorkDir = w.out, w.work
	opts.DatetimeFormat = c.DateFmt
	opts.HostIdentifier = "simhost"
	opts.GZIP, opts.GZIPLevel = c.Gzip, c.GzipLevel
	opts.RotateSize, opts.RotateInterval = c.RotateSize, tfms(c.RotateMs)
	return opts
}

func (w *tfWorld) startInstance() {
	if w.exitReq || w.rc.Failed() {
		return
	}
	w.ninst++
	in := &tfInstance{idx: w.ninst, ip: net.IPv4(10, 9, byte(w.ninst>>8), byte(w.ninst)), done: make(chan struct{})}
	// what is on disk now must survive this instance
	w.mu.Lock()
	w.frozen, w.killIn = false, 0
	w.old = map[string][]byte{}
	w.movedOld = map[string]bool{}
	for _, p := range w.listFiles() {
		b, _ := os.ReadFile(p)
		w.old[p] = b
		w.synced[p] = int64(len(b)) // whatever was written before a kill is on disk
	}
	w.mu.Unlock()
	// the real main(): flag parsing, option validation, consumer configuration, signal registration
	os.Args = w.argv(in.ip)
	w.rc.Logf("starting nsq_to_file #%d: %v", in.idx, os.Args[1:])
	in.sigFrom = simsignal.Mark()
	w.inst = in
	go func() {
		defer close(in.done)
		main()
	}()
	synctest.Wait()
	in.sigTo = simsignal.Mark()
	w.rc.Probe("instances")
}

// stopInstance: SIGTERM and wait for run() to return.
func (w *tfWorld) stopInstance(final bool) {
	in := w.inst
	if in == nil {
		return
	}
	if !in.termSent {
		in.termSent = true
		simsignal.DeliverRange(in.sigFrom, in.sigTo, syscall.SIGTERM)
		w.rc.Probe("sigterm")
	}
	t := time.NewTimer(120 * time.Second)
	defer t.Stop()
	select {
	case <-in.done:
	case <-t.C:
		if !in.exited && !final {
			w.rc.Violate("C19", "sigterm-ignored", "nsq_to_file did not stop within 120 s of SIGTERM")
		}
	}
	w.rc.Net.BlockSource(in.ip)
	w.inst = nil
	synctest.Wait()
}

// kill: SIGKILL now. Nothing the process does afterwards reaches the disk or
// nsqd: its file-system calls fail, its connections are gone and cannot be
// re-established; its goroutines are then told to stop and run into that.
func (w *tfWorld) kill() {
	in := w.inst
	if in == nil {
		return
	}
	w.mu.Lock()
	w.frozen = true
	w.mu.Unlock()
	w.rc.Net.BlockSource(in.ip)
	w.rc.Fault("sigkill")
	if !in.termSent {
		in.termSent = true
		simsignal.DeliverRange(in.sigFrom, in.sigTo, syscall.SIGTERM)
	}
	t := time.NewTimer(120 * time.Second)
	select {
	case <-in.done:
	case <-t.C:
	}
	t.Stop()
	synctest.Wait()
	w.inst = nil
	w.checkAllFinned("after SIGKILL")
}

func (w *tfWorld) exit(code int) {
	w.rc.Logf("application called os.Exit(%d)", code)
	w.mu.Lock()
	if w.inst != nil {
		w.inst.exited = true
	}
	// a process that exits stops touching the disk and loses its connections
	w.frozen = true
	if w.inst != nil {
		w.rc.Net.BlockSource(w.inst.ip)
	}
	w.mu.Unlock()
	w.rc.Probe("app_exit")
}

// ---------------------------------------------------------------- file-system hooks

func (w *tfWorld) appPath(p string) bool {
	return strings.HasPrefix(p, w.out+string(os.PathSeparator)) || strings.HasPrefix(p, w.work+string(os.PathSeparator)) || p == w.out || p == w.work
}

func (w *tfWorld) before(ev *simos.Event) error {
	if !w.appPath(ev.Path) {
		return nil
	}
	w.mu.Lock()
	defer w.mu.Unlock()
	if w.frozen {
		return syscall.EIO
	}
	if w.killIn > 0 {
		w.killIn--
		if w.killIn == 0 {
			w.frozen = true
			w.rc.Fault("sigkill_at_syscall_" + ev.Op)
			if w.inst != nil {
				w.rc.Net.BlockSource(w.inst.ip) // a killed process has no connections
			}
			return syscall.EIO
		}
	}
	if w.cfg.DiskFaults > 0 && ev.Op != "close" && ev.Op != "mkdirall" && w.injRng.Intn(w.cfg.DiskFaults) == 0 {
		if ev.Op == "write" && len(ev.Data) > 1 && w.injRng.Intn(2) == 0 {
			ev.Short = 1 + w.injRng.Intn(len(ev.Data)-1)
			w.rc.Fault("disk_short_write")
			return syscall.ENOSPC
		}
		w.rc.Fault("disk_error_" + ev.Op)
		return syscall.EIO
	}
	return nil
}

func (w *tfWorld) after(ev *simos.Event) {
	if !w.appPath(ev.Path) {
		return
	}
	w.mu.Lock()
	switch ev.Op {
	case "sync":
		if fi, err := os.Stat(ev.Path); err == nil {
			w.synced[ev.Path] = fi.Size()
		}
	case "link":
		w.synced[ev.Path2] = w.synced[ev.Path]
		if b, ok := w.old[ev.Path]; ok {
			// an old file the application appended to and now moves: follow it
			w.old[ev.Path2] = b
			w.movedOld[ev.Path] = true
		}
	case "rename":
		w.synced[ev.Path2] = w.synced[ev.Path]
		delete(w.synced, ev.Path)
		if b, ok := w.old[ev.Path]; ok {
			w.old[ev.Path2] = b
			delete(w.old, ev.Path)
		}
	case "remove":
		delete(w.synced, ev.Path)
		if w.movedOld[ev.Path] {
			delete(w.old, ev.Path)
			delete(w.movedOld, ev.Path)
		}
	}
	w.mu.Unlock()
	switch ev.Op {
	case "rename", "link", "remove", "openfile", "truncate":
		w.rc.Probe("fs_mutations_checked")
		w.checkAllFinned("after " + ev.Op + " " + w.rel(ev.Path))
		w.checkOld("after " + ev.Op + " " + w.rel(ev.Path))
	}
}

func (w *tfWorld) rel(p string) string { return strings.TrimPrefix(p, w.rc.Dir+"/") }

func (w *tfWorld) listFiles() []string {
	var out []string
	for _, d := range []string{w.out, w.work} {
		filepath.Walk(d, func(p string, fi os.FileInfo, err error) error {
			if err == nil && fi.Mode().IsRegular() {
				out = append(out, p)
			}
			return nil
		})
		if w.out == w.work {
			break
		}
	}
	sort.Strings(out)
	return out
}

// readable: the content a reader gets from the first n bytes of the file (for
// gzip: the concatenation of the complete members).
func (w *tfWorld) readable(p string, limit int64) []byte {
	b, err := os.ReadFile(p)
	if err != nil {
		return nil
	}
	if limit >= 0 && int64(len(b)) > limit {
		b = b[:limit]
	}
	if !strings.HasSuffix(p, ".gz") {
		return b
	}
	var out bytes.Buffer
	rd := bytes.NewReader(b)
	for rd.Len() > 0 {
		zr, err := gzip.NewReader(rd)
		if err != nil {
			break
		}
		zr.Multistream(false)
		var member bytes.Buffer
		if _, err := io.Copy(&member, zr); err != nil {
			break // incomplete or damaged member: nothing of it counts
		}
		out.Write(member.Bytes())
	}
	return out.Bytes()
}

func (w *tfWorld) inFiles(body []byte, syncedOnly bool) (string, bool) {
	needle := append(append([]byte(nil), body...), '\n')
	files := w.listFiles()
	for i := len(files) - 1; i >= 0; i-- {
		p := files[i]
		limit := int64(-1)
		if syncedOnly {
			w.mu.Lock()
			l, ok := w.synced[p]
			w.mu.Unlock()
			if !ok {
				continue
			}
			limit = l
		}
		if bytes.Contains(w.readable(p, limit), needle) {
			return p, true
		}
	}
	return "", false
}

// lenientFind: diagnosis only - where is the body if unfinished gzip members and raw bytes count?
func (w *tfWorld) lenientFind(body []byte) string {
	for _, p := range w.listFiles() {
		b, err := os.ReadFile(p)
		if err != nil {
			continue
		}
		if bytes.Contains(b, body) {
			return w.rel(p) + " (raw)"
		}
		if strings.HasSuffix(p, ".gz") {
			rd := bytes.NewReader(b)
			for rd.Len() > 0 {
				zr, err := gzip.NewReader(rd)
				if err != nil {
					break
				}
				zr.Multistream(false)
				var member bytes.Buffer
				_, err = io.Copy(&member, zr)
				if bytes.Contains(member.Bytes(), body) {
					return fmt.Sprintf("%s (gzip member, complete=%v)", w.rel(p), err == nil)
				}
				if err != nil {
					break
				}
			}
		}
	}
	return "nowhere on disk (still in the application's buffers, or never written)"
}

// checkAllFinned: invariant B.
func (w *tfWorld) checkAllFinned(when string) {
	if w.rc.Failed() {
		return
	}
	w.mu.Lock()
	var fin []*tfMsg
	for _, m := range w.msgs {
		if m.finned {
			fin = append(fin, m)
		}
	}
	w.mu.Unlock()
	if len(fin) == 0 {
		return
	}
	sort.Slice(fin, func(i, j int) bool { return fin[i].n < fin[j].n })
	var all bytes.Buffer
	for _, p := range w.listFiles() {
		all.Write(w.readable(p, -1))
		all.WriteByte(0)
	}
	hay := all.Bytes()
	for _, m := range fin {
		needle := append(append([]byte(nil), m.body...), '\n')
		if !bytes.Contains(hay, needle) {
			w.rc.Violate("C19", "finished-message-not-in-files", "%s: message m%05d (%d bytes) was acknowledged to nsqd earlier but is in no readable file now (files: %s)", when, m.n, len(m.body), w.describeFiles())
			return
		}
	}
	w.rc.Probe("content_checks")
}

// checkOld: invariant C.
func (w *tfWorld) checkOld(when string) {
	if w.rc.Failed() {
		return
	}
	w.mu.Lock()
	old := w.old
	w.mu.Unlock()
	var names []string
	for p := range old {
		names = append(names, p)
	}
	sort.Strings(names)
	for _, p := range names {
		b, err := os.ReadFile(p)
		if err != nil {
			// moved from the work directory to the output directory by the new
			// instance? only its own files are moved, never what it found
			w.rc.Violate("C19", "existing-file-lost", "%s: %s existed before this instance started and is gone", when, w.rel(p))
			return
		}
		if !bytes.HasPrefix(b, old[p]) {
			w.rc.Violate("C19", "existing-file-overwritten", "%s: %s existed before this instance started (%d bytes) and its content changed (now %d bytes, not an extension)", when, w.rel(p), len(old[p]), len(b))
			return
		}
	}
}

func (w *tfWorld) describeFiles() string {
	var parts []string
	for _, p := range w.listFiles() {
		fi, _ := os.Stat(p)
		sz := int64(-1)
		if fi != nil {
			sz = fi.Size()
		}
		w.mu.Lock()
		s, ok := w.synced[p]
		w.mu.Unlock()
		if !ok {
			s = -1
		}
		parts = append(parts, fmt.Sprintf("%s(%d,synced %d)", w.rel(p), sz, s))
	}
	if len(parts) > 40 {
		parts = append(parts[:40], "...")
	}
	return strings.Join(parts, " ")
}

// plant: a file with a name the application is about to use (this hour's /
// minute's name, revisions 0..2), in the output and in the work directory.
func (w *tfWorld) plant(sel int64) {
	opts := w.options()
	for _, topic := range opts.Topics {
		ff, err := computeFilenameFormat(opts, topic)
		if err != nil {
			return
		}
		when := time.Now().Add(time.Duration(sel%3) * time.Minute)
		name := strings.Replace(ff, "<DATETIME>", strftime(opts.DatetimeFormat, when), -1)
		name = strings.Replace(name, "<REV>", fmt.Sprintf("-%06d", sel%3), -1)
		dir := w.out
		if sel%2 == 1 {
			dir = w.work
		}
		p := filepath.Join(dir, name)
		if _, err := os.Stat(p); err == nil {
			continue
		}
		os.MkdirAll(filepath.Dir(p), 0755)
		content := []byte(fmt.Sprintf("planted-%d-%s\n", sel, topic))
		if w.cfg.Gzip {
			var b bytes.Buffer
			zw := gzip.NewWriter(&b)
			zw.Write(content)
			zw.Close()
			content = b.Bytes()
		}
		if os.WriteFile(p, content, 0644) == nil {
			w.mu.Lock()
			w.old[p] = content
			w.synced[p] = int64(len(content))
			w.mu.Unlock()
			w.rc.Probe("planted_files")
		}
	}
}

// ---------------------------------------------------------------- publishing and accounting

func (w *tfWorld) opPub(op Op) {
	if w.pub == nil || w.pub.Closed() {
		p, err := dialV2(w.rc, "pub", "127.0.0.1:4150", "  V2")
		if err != nil {
			return
		}
		p.Start()
		w.pub = p
	}
	topic := "logs"
	if w.cfg.Topics > 1 && op.B == 1 {
		topic = w.topic2()
	}
	r := NewPRNG(w.rc.Seed*77 + uint64(op.Uid))
	for i := int64(0); i < op.A; i++ {
		w.nbody++
		body := []byte(fmt.Sprintf("m%05d|", w.nbody))
		switch op.C {
		case 1: // bytes that matter to a line-oriented file
			for k := r.Range(0, 30); k > 0; k-- {
				body = append(body, []byte{'\n', 0, 0x1f, 0x8b, 'x', ' ', '\r'}[r.Intn(7)])
			}
		case 2:
			body = append(body, bytes.Repeat([]byte("z"), r.Pick(1, 100, 1000))...)
		default:
			for k := r.Range(0, 20); k > 0; k-- {
				body = append(body, byte('a'+r.Intn(26)))
			}
		}
		m := &tfMsg{n: w.nbody, body: body, topic: topic}
		w.mu.Lock()
		w.msgs[string(body)] = m
		w.mu.Unlock()
		w.pub.Cmd("PUB "+topic, body)
		f, ok := w.pub.WaitFrame(30*time.Second, isNonMsg)
		if ok && f.Type == frameResponse && string(f.Data) == "OK" {
			m.acked = true
		}
	}
}

// finalAccounting: nothing was lost between nsqd and the files.
func (w *tfWorld) finalAccounting() {
	if w.rc.Failed() {
		return
	}
	st := w.n.GetStats("", "", false)
	owed := int64(0)
	for _, t := range st.Topics {
		for _, c := range t.Channels {
			if c.ChannelName == "nsq_to_file" {
				owed += c.Depth + int64(c.InFlightCount) + int64(c.DeferredCount)
			}
		}
	}
	missing := 0
	var first *tfMsg
	for _, m := range w.msgs {
		if !m.acked || strings.HasSuffix(m.topic, "#ephemeral") {
			continue // (an ephemeral topic and its backlog vanish whenever its consumer is away)
		}
		if _, ok := w.inFiles(m.body, false); !ok {
			missing++
			if first == nil || m.n < first.n {
				first = m
			}
		}
	}
	w.rc.Logf("final: %d messages, %d not in files, channel still owes %d", len(w.msgs), missing, owed)
	if int64(missing) > owed {
		w.rc.Violate("C19", "message-neither-in-files-nor-owed", "%d acknowledged publishes are in no file (first m%05d) but the channel only owes %d", missing, first.n, owed)
	}
	if missing == 0 {
		w.rc.Probe("runs_fully_written")
	}
}

// onFin: invariant A, evaluated at the instant the FIN is written.
func (w *tfWorld) onFin(m *tfMsg, id string) {
	w.mu.Lock()
	frozen := w.frozen
	w.mu.Unlock()
	if m == nil || frozen {
		return
	}
	w.rc.Probe("fin_checked")
	w.rc.Logf("tap: FIN m%05d (%s)", m.n, id)
	if _, ok := w.inFiles(m.body, true); !ok {
		where, anywhere := w.inFiles(m.body, false)
		if !anywhere {
			where = w.lenientFind(m.body)
		}
		w.rc.Violate("C19", "fin-before-synced", "FIN for m%05d written while its body and newline are not inside the fsynced part of any file (complete but unsynced: %v; found in %q; files: %s)", m.n, anywhere, where, w.describeFiles())
		return
	}
	w.mu.Lock()
	m.finned = true
	w.mu.Unlock()
}
