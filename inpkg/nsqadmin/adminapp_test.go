package main

import (
	"encoding/base64"
	"encoding/json"
	"fmt"
	"net"
	"net/http"
	"net/url"
	"os"
	"path/filepath"
	"strings"
	"sync"
	"testing/synctest"
	"time"
)

func init() { registerWorld("adminapp", adminAppWorld) }

// The nsqadmin application world (C17, configuration part). The real
// program.Start() of apps/nsqadmin - flag set, TOML config file,
// options.Resolve, nsqadmin.New, Main - is given its admin list, ACL header
// and config CIDR the way an operator gives them (command-line flags, config
// file keys, or both with the flags taking precedence), in front of a
// recording stub nsqlookupd. The identity gate must then behave as the
// configuration says: not authorised => 403 and no upstream request at all.

type AACfg struct {
	Admins     []string `json:"admins"`
	AdminsVia  string   `json:"admins_via"` // flag, file, both (file lists other users; the flags win)
	Header     string   `json:"acl_header"` // "" = default
	HeaderVia  string   `json:"header_via"`
	CIDR       string   `json:"cidr"` // "" = default (127.0.0.1/8)
	CIDRVia    string   `json:"cidr_via"`
	LookupdVia string   `json:"lookupd_via"`
	YieldProb  uint32   `json:"yield_prob"`
}

func genAACfg(rc *RunCtx) AACfg {
	r := rc.Rng
	c := AACfg{}
	switch r.Intn(4) {
	case 0:
	case 1:
		c.Admins = []string{"alice"}
	case 2:
		c.Admins = []string{"alice", "bob@example.com"}
	case 3:
		c.Admins = []string{"carol"}
	}
	c.AdminsVia = r.PickS("flag", "file", "file", "both")
	c.Header = r.PickS("", "", "X-Remote-User", "X-Auth-Request-Email")
	c.HeaderVia = r.PickS("flag", "file")
	c.CIDR = r.PickS("", "10.1.0.0/16", "fd00::/8", "127.0.0.1/32")
	c.CIDRVia = r.PickS("flag", "file")
	c.LookupdVia = r.PickS("flag", "file")
	c.YieldProb = uint32(r.Pick(0, 1024))
	return c
}

func genAAOps(rc *RunCtx, c AACfg) []Op {
	r := rc.Rng
	n := r.Range(6, 20)
	var ops []Op
	for i := 0; i < n; i++ {
		if r.Chance(1, 4) {
			ops = append(ops, Op{Uid: i, Kind: "config", A: int64(r.Intn(8)), B: int64(r.Intn(2))})
		} else {
			ops = append(ops, Op{Uid: i, Kind: "mutate", A: int64(r.Intn(11)), B: int64(r.Intn(3))})
		}
	}
	return ops
}

type aaReq struct{ method, path, query string }

func adminAppWorld(rc *RunCtx) {
	var cfg AACfg
	var ops []Op
	if rc.Replay != nil {
		if err := json.Unmarshal(rc.Replay.Cfg, &cfg); err != nil {
			panic(err)
		}
		ops = rc.Replay.Ops
	} else {
		cfg = genAACfg(rc)
		ops = genAAOps(rc, cfg)
	}
	if rc.GenOnly(cfg, ops) {
		return
	}
	rc.Sched.Prob = cfg.YieldProb
	// recording stub nsqlookupd
	var mu sync.Mutex
	var log []aaReq
	ln, err := rc.Net.Listen("tcp", "127.0.0.1:4161")
	if err != nil {
		panic("harness: " + err.Error())
	}
	srv := &http.Server{Handler: http.HandlerFunc(func(rw http.ResponseWriter, req *http.Request) {
		mu.Lock()
		log = append(log, aaReq{req.Method, req.URL.Path, req.URL.RawQuery})
		mu.Unlock()
		rw.Header().Set("Content-Type", "application/json")
		switch req.URL.Path {
		case "/topics":
			rw.Write([]byte(`{"topics":["orders"]}`))
		case "/nodes":
			rw.Write([]byte(`{"producers":[]}`))
		case "/lookup":
			rw.Write([]byte(`{"channels":[],"producers":[]}`))
		case "/channels":
			rw.Write([]byte(`{"channels":[]}`))
		default:
			rw.Write([]byte(`{}`))
		}
	})}
	go srv.Serve(ln)
	rc.Defer(func() { srv.Close(); ln.Close() })
	// the operator's configuration: flags and/or a config file
	args := []string{"nsqadmin", "--http-address=127.0.0.1:4171"}
	var file []string
	list := func(xs []string) string {
		var q []string
		for _, x := range xs {
			q = append(q, fmt.Sprintf("%q", x))
		}
		return "[" + strings.Join(q, ", ") + "]"
	}
	switch cfg.AdminsVia {
	case "flag":
		for _, a := range cfg.Admins {
			args = append(args, "--admin-user="+a)
		}
	case "file":
		if len(cfg.Admins) > 0 {
			file = append(file, "admin_users = "+list(cfg.Admins))
		}
	case "both":
		if len(cfg.Admins) > 0 {
			file = append(file, `admin_users = ["somebody-else"]`)
			for _, a := range cfg.Admins {
				args = append(args, "--admin-user="+a)
			}
		}
	}
	if cfg.Header != "" {
		if cfg.HeaderVia == "flag" {
			args = append(args, "--acl-http-header="+cfg.Header)
		} else {
			file = append(file, fmt.Sprintf("acl_http_header = %q", cfg.Header))
		}
	}
	if cfg.CIDR != "" {
		if cfg.CIDRVia == "flag" {
			args = append(args, "--allow-config-from-cidr="+cfg.CIDR)
		} else {
			file = append(file, fmt.Sprintf("allow_config_from_cidr = %q", cfg.CIDR))
		}
	}
	if cfg.LookupdVia == "flag" {
		args = append(args, "--lookupd-http-address=127.0.0.1:4161")
	} else {
		file = append(file, `nsqlookupd_http_addresses = ["127.0.0.1:4161"]`)
	}
	if len(file) > 0 {
		p := filepath.Join(rc.Dir, "nsqadmin.cfg")
		if err := os.WriteFile(p, []byte(strings.Join(file, "\n")+"\n"), 0644); err != nil {
			panic("harness: " + err.Error())
		}
		args = append(args, "--config="+p)
	}
	rc.Logf("args %v file %q", args[1:], file)
	saved := os.Args
	os.Args = args
	prg := &program{}
	err = prg.Start()
	os.Args = saved
	if err != nil {
		rc.Violate("C17", "startup-failed", "program.Start with %v / %q: %v", args[1:], file, err)
		return
	}
	rc.Defer(func() { prg.Stop(); synctest.Wait() })
	synctest.Wait()
	header := cfg.Header
	if header == "" {
		header = "X-Forwarded-User"
	}
	cidr := cfg.CIDR
	if cidr == "" {
		cidr = "127.0.0.1/8"
	}
	_, ipnet, _ := net.ParseCIDR(cidr)
	admin := func(name string) bool {
		for _, a := range cfg.Admins {
			if a == name {
				return true
			}
		}
		return false
	}
	for i, op := range ops {
		rc.step = i + 1
		rc.Reseed(op.Uid)
		rc.opsKind[op.Kind]++
		switch op.Kind {
		case "mutate":
			var hdr map[string]string
			isAdmin := false
			other := "X-Forwarded-User"
			if header == other {
				other = "X-Remote-User"
			}
			switch op.A % 11 {
			case 0:
			case 1:
				hdr = map[string]string{header: ""}
			case 2:
				hdr = map[string]string{header: "mallory"}
			case 3, 4:
				hdr, isAdmin = map[string]string{header: "alice"}, admin("alice")
			case 5:
				hdr, isAdmin = map[string]string{header: "bob@example.com"}, admin("bob@example.com")
			case 6:
				hdr, isAdmin = map[string]string{header: "carol"}, admin("carol")
			case 7:
				hdr = map[string]string{other: "alice"} // an admin's name in a header nsqadmin was not told to trust
			case 8:
				hdr, isAdmin = map[string]string{header: "somebody-else"}, admin("somebody-else")
			case 9:
				hdr = map[string]string{header: "Alice"}
			case 10:
				hdr = map[string]string{"Authorization": "Basic " + base64.StdEncoding.EncodeToString([]byte("alice:secret"))}
			}
			allowed := len(cfg.Admins) == 0 || isAdmin
			var method, path string
			var body []byte
			var wantPost string
			switch op.B % 3 {
			case 0:
				method, path, body, wantPost = "POST", "/api/topics", []byte(`{"topic":"orders"}`), "/topic/create"
			case 1:
				method, path, body, wantPost = "POST", "/api/topics", []byte(`{"topic":"orders","channel":"archive"}`), "/channel/create"
			case 2:
				method, path, body, wantPost = "DELETE", "/api/nodes/"+url.PathEscape("nsqd1.sim:4151"), []byte(`{"topic":"orders"}`), "/topic/tombstone"
			}
			mu.Lock()
			mark := len(log)
			mu.Unlock()
			resp := httpDo(rc, method, "127.0.0.1:4171", path, body, hdr, nil, 60*time.Second)
			synctest.Wait()
			mu.Lock()
			reqs := append([]aaReq(nil), log[mark:]...)
			mu.Unlock()
			rc.Logf("%s %s hdr=%v -> %d %q, %d upstream requests, allowed=%v", method, path, hdr, resp.Status, aaTrunc(resp.Body, 60), len(reqs), allowed)
			rc.Probe("mutations_checked")
			if resp.Err != nil {
				rc.Violate("C17", "no-response", "%s %s: %v", method, path, resp.Err)
				break
			}
			if !allowed {
				if resp.Status != 403 {
					rc.Violate("C17", "unauthorised-not-refused", "configured with %v (file %q): %s %s with identity %v answered %d, expected 403", args[1:], file, method, path, hdr, resp.Status)
				} else if len(reqs) != 0 {
					rc.Violate("C17", "unauthorised-reached-upstream", "%s %s with identity %v was refused but caused %d upstream request(s), first %s %s", method, path, hdr, len(reqs), reqs[0].method, reqs[0].path)
				}
				rc.Probe("refusals_checked")
				break
			}
			if resp.Status == 403 {
				rc.Violate("C17", "authorised-refused", "configured with %v (file %q): %s %s with identity %v answered 403", args[1:], file, method, path, hdr)
				break
			}
			found := false
			for _, q := range reqs {
				if q.method == "POST" && q.path == wantPost {
					found = true
				}
			}
			if !found {
				rc.Violate("C17", "action-not-carried-out", "%s %s by %v: the lookupd saw no POST %s (saw %v)", method, path, hdr, wantPost, reqs)
			}
		case "config":
			srcs := []string{"127.0.0.1", "10.1.2.3", "10.2.0.1", "192.168.1.1", "fd00::1", "2001:db8::1", "127.0.0.9", "10.1.255.255"}
			src := net.ParseIP(srcs[int(op.A)%len(srcs)])
			method, body := "GET", []byte(nil)
			if op.B == 1 {
				method, body = "PUT", []byte("info")
			}
			resp := httpDo(rc, method, "127.0.0.1:4171", "/config/log_level", body, nil, src, 30*time.Second)
			rc.Probe("config_requests_checked")
			if resp.Err != nil {
				rc.Violate("C17", "no-response", "%s /config/log_level: %v", method, resp.Err)
				break
			}
			inside := ipnet.Contains(src)
			if inside && resp.Status != 200 {
				rc.Violate("C17", "config-inside-cidr-refused", "configured with %v (file %q): %s /config/log_level from %s (CIDR %s) answered %d", args[1:], file, method, src, cidr, resp.Status)
			}
			if !inside && resp.Status != 403 {
				rc.Violate("C17", "config-outside-cidr-allowed", "configured with %v (file %q): %s /config/log_level from %s (CIDR %s) answered %d, expected 403", args[1:], file, method, src, cidr, resp.Status)
			}
		}
		if rc.Failed() {
			break
		}
	}
	rc.Res.Ops = len(ops)
	rc.Res.Nontrivial = rc.probes["mutations_checked"] > 0
	rc.Res.State = fmt.Sprintf("%v|%s|%s|%s|%s|%s", cfg.Admins, cfg.AdminsVia, cfg.Header, cfg.HeaderVia, cfg.CIDR, cfg.CIDRVia)
	sample := map[string]interface{}{"seed": rc.Seed, "cfg": cfg, "args": args[1:], "config_file": file, "n_ops": len(ops)}
	rc.Res.Sample, _ = json.Marshal(sample)
	if rc.Failed() {
		rc.writeReplay(cfg, ops)
	}
}

func aaTrunc(b []byte, n int) []byte {
	if len(b) > n {
		return b[:n]
	}
	return b
}
