package main

import (
	"encoding/json"
	"flag"
	"fmt"
	"io"
	"net"
	"net/http"
	"net/url"
	"os"
	"sort"
	"sync"
	"syscall"
	"testing/synctest"
	"time"

	"github.com/nsqio/nsq/internal/app"
	"github.com/nsqio/nsq/nsqd"

	"verifsim/simnet"
	"verifsim/simos"
	"verifsim/simsignal"
)

func init() { registerWorld("nsq2http", n2hRun) }

// The nsq_to_http world (C20, relays): the real main() of nsq_to_http between
// a real nsqd and 1-3 stub HTTP endpoints that answer 200/204/4xx/5xx, stall,
// reset or refuse on command. Invariants F and L as in the nsq_to_nsq world.

const (
	hsOK = iota
	hs204
	hs500
	hs404
	hs302
	hsStall
	hsReset
	hsModes
)

type httpSink struct {
	idx      int
	addr     string
	ln       *simnet.Listener
	srv      *http.Server
	mode     int
	accepted [][]byte
}

type N2HCfg struct {
	Mode        string `json:"mode"`
	Post        bool   `json:"post"`
	NDest       int    `json:"destinations"`
	MaxInFlight int    `json:"max_in_flight"`
	NPub        int    `json:"n_publishers"`
	MsgTOMs     int64  `json:"msg_timeout_ms"`
	YieldProb   uint32 `json:"yield_prob"`
}

type n2hMsg struct {
	n      int
	body   []byte
	acked  bool
	finned bool
	reqs   int
}

type n2hWorld struct {
	rc             *RunCtx
	cfg            N2HCfg
	n              *nsqd.NSQD
	sinks          []*httpSink
	mu             sync.Mutex
	msgs           map[string]*n2hMsg
	nbody          int
	pub            *V2Client
	sigFrom, sigTo int
	done           chan struct{}
	exited         int
}

func genN2HCfg(rc *RunCtx) N2HCfg {
	r := rc.Rng
	// ("all": any value that is not one of the three listed ones selects delivery to EVERY endpoint)
	return N2HCfg{Mode: r.PickS("round-robin", "hostpool", "epsilon-greedy", "round-robin", "hostpool", "epsilon-greedy", "all"), Post: r.Chance(1, 2), NDest: r.Pick(1, 2, 3), MaxInFlight: r.Pick(1, 5, 200),
		NPub: r.Pick(1, 3, 100), MsgTOMs: int64(r.Pick(5000, 60000)), YieldProb: uint32(r.Pick(0, 1024, 4096))}
}

func genN2HOps(rc *RunCtx, c N2HCfg) []Op {
	r := rc.Rng
	n := r.Range(6, 40)
	var ops []Op
	add := func(o Op) { o.Uid = len(ops); ops = append(ops, o) }
	for len(ops) < n {
		switch r.Weighted([]int{30, 20, 18, 5, 4}) {
		case 0:
			add(Op{Kind: "pub", A: int64(r.Range(1, 6)), C: int64(r.Intn(3))})
		case 1:
			add(Op{Kind: "adv", A: int64(r.Pick(10, 500, 2000, 21000, 61000, 95000, 200000))})
		case 2:
			add(Op{Kind: "dest", A: int64(r.Intn(3)), B: int64(r.Intn(hsModes + 1))})
		case 3:
			add(Op{Kind: "heal"})
		case 4:
			add(Op{Kind: "netreset"})
		}
	}
	return ops
}

func n2hms(n int64) time.Duration { return time.Duration(n) * time.Millisecond }

func (w *n2hWorld) serve(s *httpSink, rw http.ResponseWriter, req *http.Request) {
	var body []byte
	if req.Method == "POST" {
		body, _ = io.ReadAll(req.Body)
	} else {
		body = []byte(req.URL.Query().Get("m"))
	}
	w.mu.Lock()
	mode := s.mode
	w.mu.Unlock()
	reset := func() {
		if hj, ok := rw.(http.Hijacker); ok {
			c, _, _ := hj.Hijack()
			if sc, ok := c.(*simnet.Conn); ok {
				sc.Reset()
			} else {
				c.Close()
			}
		}
	}
	switch mode {
	case hsOK, hs204:
		if mode == hs204 && req.Method == "GET" {
			// GET mode only counts 200 as success
			rw.WriteHeader(200)
		} else if mode == hs204 {
			rw.WriteHeader(204)
		}
		w.mu.Lock()
		s.accepted = append(s.accepted, body)
		w.mu.Unlock()
		if mode == hsOK {
			rw.Write([]byte("OK"))
		}
	case hs500:
		rw.WriteHeader(500)
		rw.Write([]byte("no"))
	case hs404:
		rw.WriteHeader(404)
	case hs302:
		rw.WriteHeader(304) // not a success in either mode, and nothing to follow
	case hsStall:
		time.Sleep(10 * time.Minute)
		reset()
	case hsReset:
		reset()
	}
}

// accepted: an endpoint has answered 2xx for the body - in the deliver-to-all mode: every endpoint has
func (w *n2hWorld) accepted(body []byte) bool {
	w.mu.Lock()
	defer w.mu.Unlock()
	n := 0
	for _, s := range w.sinks {
		for _, b := range s.accepted {
			if string(b) == string(body) {
				n++
				break
			}
		}
	}
	if w.cfg.Mode == "all" {
		return n == len(w.sinks)
	}
	return n > 0
}

func n2hRun(rc *RunCtx) {
	w := &n2hWorld{rc: rc, msgs: map[string]*n2hMsg{}, exited: -1}
	var ops []Op
	if rc.Replay != nil {
		if err := json.Unmarshal(rc.Replay.Cfg, &w.cfg); err != nil {
			panic(err)
		}
		ops = rc.Replay.Ops
	} else {
		w.cfg = genN2HCfg(rc)
		ops = genN2HOps(rc, w.cfg)
	}
	c := w.cfg
	if rc.GenOnly(c, ops) {
		return
	}
	rc.Sched.Prob = c.YieldProb
	os.MkdirAll(rc.Dir+"/data", 0755)
	o := nsqd.NewOptions()
	o.Logger = &simLogger{rc: rc, name: "nsqd"}
	o.TCPAddress, o.HTTPAddress, o.HTTPSAddress = "127.0.0.1:4150", "127.0.0.1:4151", ""
	o.BroadcastAddress = "127.0.0.1"
	o.DataPath = rc.Dir + "/data"
	o.MsgTimeout = n2hms(c.MsgTOMs)
	o.MaxReqTimeout = time.Hour
	o.QueueScanInterval = 100 * time.Millisecond
	if os.Getenv("VERIF_DEBUG") != "" {
		o.LogLevel = 1 // lg.DEBUG
	}
	n, err := nsqd.New(o)
	if err != nil {
		rc.Violate(rc.Prop, "startup-failed", "%v", err)
		return
	}
	n.LoadMetadata()
	n.PersistMetadata()
	w.n = n
	go n.Main()
	synctest.Wait()
	args := []string{"nsq_to_http", "--topic=src0", "--nsqd-tcp-address=127.0.0.1:4150", "--mode=" + c.Mode,
		fmt.Sprintf("--max-in-flight=%d", c.MaxInFlight), fmt.Sprintf("--n=%d", c.NPub), "--status-every=0",
		"--http-client-connect-timeout=1s", "--http-client-request-timeout=5s",
		"--consumer-opt=local_addr,10.9.1.1:0", "--consumer-opt=dial_timeout,1s"}
	for i := 0; i < c.NDest; i++ {
		s := &httpSink{idx: i, addr: fmt.Sprintf("127.0.0.1:%d", 8080+i)}
		ln, err := rc.Net.Listen("tcp", s.addr)
		if err != nil {
			panic("harness: " + err.Error())
		}
		s.ln = ln
		s.srv = &http.Server{Handler: http.HandlerFunc(func(rw http.ResponseWriter, req *http.Request) { w.serve(s, rw, req) })}
		go s.srv.Serve(ln)
		w.sinks = append(w.sinks, s)
		if c.Post {
			args = append(args, "--post=http://"+s.addr+"/in")
		} else {
			args = append(args, "--get=http://"+s.addr+"/in?m=%s")
		}
	}
	rc.Net.OnConnect = func(cl, sv *simnet.Conn) {
		ta, ok := cl.LocalAddr().(*net.TCPAddr)
		if !ok || !ta.IP.Equal(net.IPv4(10, 9, 1, 1)) {
			return
		}
		t := tapConn(cl, sv, &w.mu)
		t.onFin = w.onFin
		t.onReq = func(_ *connTap, id string, body []byte, known bool) {
			w.mu.Lock()
			if m := w.msgs[string(body)]; m != nil {
				m.reqs++
			}
			w.mu.Unlock()
			rc.Probe("req_seen")
		}
	}
	simos.Install(&simos.Hooks{Exit: func(code int) { w.exited = code }})
	simsignal.Activate(true)
	savedArgs, savedFlags := os.Args, flag.CommandLine
	rc.Defer(func() {
		w.stopApp()
		os.Args, flag.CommandLine = savedArgs, savedFlags
		simsignal.Activate(false)
		simos.Install(nil)
		if w.pub != nil {
			w.pub.Close()
		}
		for _, s := range w.sinks {
			s.srv.Close()
		}
		n.Exit()
		for _, sc := range rc.Net.Conns() {
			sc.Reset()
		}
		synctest.Wait()
	})
	fs := flag.NewFlagSet("nsq_to_http", flag.ContinueOnError)
	flag.CommandLine = fs
	*showVersion, *topic, *channel, *maxInFlight, *numPublishers, *mode, *sample = false, "", "nsq_to_http", 200, 100, "hostpool", 1.0
	*httpConnectTimeout, *httpRequestTimeout, *statusEvery, *contentType = 2*time.Second, 20*time.Second, 250, "application/octet-stream"
	getAddrs, postAddrs, customHeaders, nsqdTCPAddrs, lookupdHTTPAddrs = app.StringArray{}, app.StringArray{}, app.StringArray{}, app.StringArray{}, app.StringArray{}
	validCustomHeaders = nil
	fs.BoolVar(showVersion, "version", false, "")
	fs.StringVar(topic, "topic", "", "")
	fs.StringVar(channel, "channel", "nsq_to_http", "")
	fs.IntVar(maxInFlight, "max-in-flight", 200, "")
	fs.IntVar(numPublishers, "n", 100, "")
	fs.StringVar(mode, "mode", "hostpool", "")
	fs.Float64Var(sample, "sample", 1.0, "")
	fs.DurationVar(httpConnectTimeout, "http-client-connect-timeout", 2*time.Second, "")
	fs.DurationVar(httpRequestTimeout, "http-client-request-timeout", 20*time.Second, "")
	fs.IntVar(statusEvery, "status-every", 250, "")
	fs.StringVar(contentType, "content-type", "application/octet-stream", "")
	fs.Var(&postAddrs, "post", "")
	fs.Var(&customHeaders, "header", "")
	fs.Var(&getAddrs, "get", "")
	fs.Var(&nsqdTCPAddrs, "nsqd-tcp-address", "")
	fs.Var(&lookupdHTTPAddrs, "lookupd-http-address", "")
	os.Args = args
	rc.Logf("cfg %+v", c)
	rc.Logf("starting nsq_to_http %v", args[1:])
	w.sigFrom = simsignal.Mark()
	w.done = make(chan struct{})
	go func() {
		defer close(w.done)
		main()
	}()
	synctest.Wait()
	w.sigTo = simsignal.Mark()

	for i, op := range ops {
		rc.step = i + 1
		rc.Reseed(op.Uid)
		rc.opsKind[op.Kind]++
		rc.Logf("op %d uid=%d %s a=%d b=%d c=%d", i, op.Uid, op.Kind, op.A, op.B, op.C)
		switch op.Kind {
		case "pub":
			w.opPub(op)
		case "adv":
			time.Sleep(n2hms(op.A))
		case "dest":
			s := w.sinks[int(uint64(op.A)%uint64(len(w.sinks)))]
			if int(op.B) >= hsModes {
				rc.Net.SetRefuse(s.addr, simnet.RefuseRST)
				rc.Fault("sink_refuse")
			} else {
				rc.Net.SetRefuse(s.addr, simnet.RefuseNone)
				w.mu.Lock()
				s.mode = int(op.B)
				w.mu.Unlock()
				if op.B >= hs500 {
					rc.Fault([]string{"", "", "sink_500", "sink_404", "sink_304", "sink_stall", "sink_reset"}[op.B])
				}
			}
		case "heal":
			w.heal()
		case "netreset":
			for _, sc := range rc.Net.Conns() {
				if ta, ok := sc.LocalAddr().(*net.TCPAddr); ok && ta.IP.Equal(net.IPv4(10, 9, 1, 1)) && !sc.IsDead() {
					sc.Reset()
					rc.Fault("source_conn_reset")
				}
			}
		}
		synctest.Wait()
		if w.exited >= 0 && !rc.Failed() {
			rc.Violate("C20", "relay-exited", "nsq_to_http exited with status %d", w.exited)
		}
		if rc.Failed() {
			break
		}
	}
	if !rc.Failed() {
		w.drain()
	}
	rc.Res.Ops = len(ops)
	rc.Res.Nontrivial = rc.probes["fin_checked"] > 0
	rc.Res.State = fmt.Sprintf("%016x", fnv([]byte(fmt.Sprint(c, len(w.msgs), rc.probes["fin_checked"], rc.probes["req_seen"]))))
	hd := ops
	if len(hd) > 12 {
		hd = hd[:12]
	}
	sample := map[string]interface{}{"seed": rc.Seed, "cfg": c, "ops_head": hd, "n_ops": len(ops)}
	rc.Res.Sample, _ = json.Marshal(sample)
	if rc.Failed() {
		rc.writeReplay(c, ops)
	}
}

func (w *n2hWorld) heal() {
	for _, s := range w.sinks {
		w.rc.Net.SetRefuse(s.addr, simnet.RefuseNone)
		w.mu.Lock()
		s.mode = hsOK
		w.mu.Unlock()
	}
	w.rc.Probe("heals")
}

func (w *n2hWorld) stopApp() {
	if w.done == nil {
		return
	}
	simsignal.DeliverRange(w.sigFrom, w.sigTo, syscall.SIGTERM)
	t := time.NewTimer(5 * time.Minute)
	select {
	case <-w.done:
	case <-t.C:
	}
	t.Stop()
	w.done = nil
}

func (w *n2hWorld) opPub(op Op) {
	if w.pub == nil || w.pub.Closed() {
		p, err := dialV2(w.rc, "pub", "127.0.0.1:4150", "  V2")
		if err != nil {
			return
		}
		p.Start()
		w.pub = p
	}
	for i := int64(0); i < op.A; i++ {
		w.nbody++
		m := &n2hMsg{n: w.nbody}
		m.body = []byte(fmt.Sprintf("m%05d|%s", w.nbody, []string{"plain", "a b&c=d%20+/?#", "\x00\xff\n%s%d"}[op.C%3]))
		w.mu.Lock()
		w.msgs[string(m.body)] = m
		w.mu.Unlock()
		w.pub.Cmd("PUB src0", m.body)
		f, ok := w.pub.WaitFrame(30*time.Second, isNonMsg)
		if ok && f.Type == frameResponse && string(f.Data) == "OK" {
			m.acked = true
		}
	}
}

func (w *n2hWorld) onFin(_ *connTap, id string, body []byte, known bool) {
	if !known {
		return
	}
	w.mu.Lock()
	m := w.msgs[string(body)]
	w.mu.Unlock()
	if m == nil {
		return
	}
	w.rc.Probe("fin_checked")
	if !w.accepted(m.body) {
		w.rc.Violate("C20", "finished-before-accepted", "nsq_to_http wrote FIN for m%05d (requeued %d times before) although no endpoint has answered 2xx for its body", m.n, m.reqs)
		return
	}
	m.finned = true
}

func (w *n2hWorld) drain() {
	w.heal()
	synctest.Wait()
	missing := func() []*n2hMsg {
		var out []*n2hMsg
		w.mu.Lock()
		var all []*n2hMsg
		for _, m := range w.msgs {
			all = append(all, m)
		}
		w.mu.Unlock()
		for _, m := range all {
			if m.acked && !w.accepted(m.body) {
				out = append(out, m)
			}
		}
		sort.Slice(out, func(i, j int) bool { return out[i].n < out[j].n })
		return out
	}
	for i := 0; i < 48 && len(missing()) > 0; i++ {
		time.Sleep(5 * time.Minute)
		synctest.Wait()
	}
	if ms := missing(); len(ms) > 0 {
		src := ""
		for _, t := range w.n.GetStats("", "", true).Topics {
			for _, ch := range t.Channels {
				src += fmt.Sprintf(" %s/%s depth=%d inflight=%d deferred=%d", t.TopicName, ch.ChannelName, ch.Depth, ch.InFlightCount, ch.DeferredCount)
				for _, cl := range ch.Clients {
					src += fmt.Sprintf(" client[%s]", cl.String())
				}
			}
		}
		w.rc.Violate("C20", "message-never-arrived", "%d source messages never reached an endpoint although all endpoints answered 200 for 4 simulated hours (first m%05d, finished=%v, requeued %d times); source:%s", len(ms), ms[0].n, ms[0].finned, ms[0].reqs, src)
		return
	}
	w.mu.Lock()
	defer w.mu.Unlock()
	for _, s := range w.sinks {
		for _, b := range s.accepted {
			if _, ok := w.msgs[string(b)]; !ok {
				w.rc.Violate("C20", "forwarded-body-modified", "endpoint %s received %q which is not a published body", s.addr, b)
				return
			}
		}
	}
	w.rc.Probe("runs_fully_forwarded")
}

var _ = url.QueryEscape
