package main

import (
	"bytes"
	"encoding/binary"
	"encoding/json"
	"fmt"
	"net/http"
	"os"
	"path/filepath"
	"strings"
	"testing/synctest"
	"time"
)

func init() { registerWorld("nsqdapp", nsqdAppWorld) }

// The nsqd application world (configuration part of C09 and C11). The real
// program.Init()/Start() of apps/nsqd - flag set, TOML config file,
// config.Validate, options.Resolve, nsqd.New, LoadMetadata, Main - is given
// its limits and its TLS / AUTH policy the way an operator gives them
// (command-line flags, config-file keys, or both with the flags winning). The
// daemon must then enforce exactly the configured values: each limit is probed
// at the value and one past it, the TLS/AUTH gate with a plaintext command.

const ndCertDir = "/repo/nsqd/test/certs/"

type NDOpt struct {
	Name string `json:"name"` // flag name
	Val  string `json:"val"`
	Via  string `json:"via"` // flag, file, both (file carries another value; the flag wins)
}

type NDCfg struct {
	Opts      []NDOpt `json:"opts"`
	YieldProb uint32  `json:"yield_prob"`
}

func (c NDCfg) get(name, def string) string {
	for _, o := range c.Opts {
		if o.Name == name {
			return o.Val
		}
	}
	return def
}

func genNDCfg(rc *RunCtx) NDCfg {
	r := rc.Rng
	c := NDCfg{YieldProb: uint32(r.Pick(0, 1024))}
	add := func(name, val string) {
		c.Opts = append(c.Opts, NDOpt{Name: name, Val: val, Via: r.PickS("flag", "file", "file", "both")})
	}
	maybe := func(name string, vals ...string) {
		if r.Chance(2, 3) {
			add(name, vals[r.Intn(len(vals))])
		}
	}
	if rc.Prop == "C11" {
		maybe("tls-required", "true", "false", "tcp-https", "1", "0")
		if r.Chance(1, 3) {
			add("tls-client-auth-policy", r.PickS("require", "require-verify"))
		}
		if r.Chance(1, 2) {
			add("auth-http-address", "127.0.0.1:4181")
		}
		maybe("https-address", "", "127.0.0.1:4152")
	} else if rc.Prop == "C04" {
		maybe("msg-timeout", "1s", "7s", "1m30s")
		maybe("max-msg-timeout", "2m0s", "15m0s")
		maybe("max-req-timeout", "3s", "1m0s")
	} else {
		maybe("max-msg-size", "16", "300", "5000")
		maybe("max-body-size", "256", "1000", "20000")
		maybe("max-rdy-count", "1", "7", "2500", "9999")
		maybe("max-req-timeout", "1s", "90s", "1h0m0s")
		maybe("max-heartbeat-interval", "2s", "30s", "1m0s")
		maybe("max-output-buffer-size", "64", "1024", "65536")
		maybe("max-output-buffer-timeout", "100ms", "1s", "30s")
		maybe("max-msg-timeout", "2s", "15m0s")
		maybe("max-deflate-level", "1", "3", "9")
	}
	return c
}

func ndDur(s string) time.Duration {
	d, err := time.ParseDuration(s)
	if err != nil {
		panic("harness: bad duration " + s)
	}
	return d
}

func ndInt(s string) int64 {
	var v int64
	fmt.Sscanf(s, "%d", &v)
	return v
}

type ndWorld struct {
	rc  *RunCtx
	cfg NDCfg
	how string
}

func (w *ndWorld) violate(prop, class, format string, a ...interface{}) {
	if prop != w.rc.Prop {
		w.rc.Logf("(not enforced here) %s %s: %s", prop, class, fmt.Sprintf(format, a...))
		return
	}
	w.rc.Violate(prop, class, "configured with %s: %s", w.how, fmt.Sprintf(format, a...))
}

// one command on a fresh plaintext connection; returns the first non-message frame
func (w *ndWorld) one(pre func(cl *V2Client), line string, body []byte) (Frame, bool, bool) {
	cl, err := dialV2(w.rc, "probe", "127.0.0.1:4150", "  V2")
	if err != nil {
		w.violate(w.rc.Prop, "refused", "connect: %v", err)
		return Frame{}, false, false
	}
	defer func() { cl.Close(); synctest.Wait() }()
	cl.Start()
	if pre != nil {
		pre(cl)
	}
	cl.Cmd(line, body)
	f, ok := cl.WaitFrame(20*time.Second, isNonMsg)
	synctest.Wait()
	return f, ok, cl.Closed()
}

func (w *ndWorld) expectOK(what string, f Frame, ok bool) {
	w.rc.Probe("limit_probes")
	if !ok || f.Type != frameResponse {
		w.violate("C09", "limit-not-enforced", "%s: expected success, got %q (answered=%v)", what, ndTrunc(f.Data, 80), ok)
	}
}

func (w *ndWorld) expectErr(what, code string, f Frame, ok bool) {
	w.rc.Probe("limit_probes")
	if !ok || f.Type != frameError || errCode(f.Data) != code {
		w.violate("C09", "limit-not-enforced", "%s: expected %s, got %q (answered=%v)", what, code, ndTrunc(f.Data, 80), ok)
	}
}

func ndMpub(bodies [][]byte) []byte {
	var b bytes.Buffer
	binary.Write(&b, binary.BigEndian, int32(len(bodies)))
	for _, x := range bodies {
		binary.Write(&b, binary.BigEndian, int32(len(x)))
		b.Write(x)
	}
	return b.Bytes()
}

func nsqdAppWorld(rc *RunCtx) {
	w := &ndWorld{rc: rc}
	if rc.Replay != nil {
		if err := json.Unmarshal(rc.Replay.Cfg, &w.cfg); err != nil {
			panic(err)
		}
	} else {
		w.cfg = genNDCfg(rc)
	}
	cfg := w.cfg
	if rc.GenOnly(cfg, []Op{{Kind: "probe"}}) {
		return
	}
	rc.Sched.Prob = cfg.YieldProb
	// stub auth server (answers every query with a full grant for 1h)
	if cfg.get("auth-http-address", "") != "" {
		ln, err := rc.Net.Listen("tcp", "127.0.0.1:4181")
		if err != nil {
			panic("harness: " + err.Error())
		}
		srv := &http.Server{Handler: http.HandlerFunc(func(rw http.ResponseWriter, req *http.Request) {
			rw.Write([]byte(`{"ttl":3600,"identity":"x","authorizations":[{"topic":".*","channels":[".*"],"permissions":["publish","subscribe"]}]}`))
		})}
		go srv.Serve(ln)
		rc.Defer(func() { srv.Close(); ln.Close() })
	}
	args := []string{"nsqd", "--tcp-address=127.0.0.1:4150", "--http-address=127.0.0.1:4151", "--data-path=" + rc.Dir, "--broadcast-address=127.0.0.1"}
	var file []string
	needCert := false
	other := map[string]string{"max-msg-size": "77", "max-body-size": "777", "max-rdy-count": "3", "max-req-timeout": "7s", "max-heartbeat-interval": "7s",
		"max-output-buffer-size": "777", "max-output-buffer-timeout": "700ms", "max-msg-timeout": "7s", "max-deflate-level": "2",
		"tls-required": "false", "tls-client-auth-policy": "", "auth-http-address": "127.0.0.1:9", "https-address": "127.0.0.1:4159",
		"msg-timeout": "13s"}
	fileLine := func(name, val string) string {
		key := strings.ReplaceAll(name, "-", "_")
		switch name {
		case "auth-http-address":
			return fmt.Sprintf("auth_http_addresses = [%q]", val)
		case "tls-required":
			if val == "true" || val == "false" {
				return "tls_required = " + val // a TOML boolean
			}
			return fmt.Sprintf("tls_required = %q", val)
		case "max-msg-size", "max-body-size", "max-rdy-count", "max-output-buffer-size", "max-deflate-level":
			return key + " = " + val
		}
		return fmt.Sprintf("%s = %q", key, val)
	}
	for _, o := range cfg.Opts {
		if o.Name == "tls-required" && o.Val != "false" && o.Val != "0" || o.Name == "tls-client-auth-policy" {
			needCert = true
		}
		switch o.Via {
		case "flag":
			args = append(args, "--"+o.Name+"="+o.Val)
		case "file":
			file = append(file, fileLine(o.Name, o.Val))
		case "both":
			if o.Name == "tls-client-auth-policy" {
				args = append(args, "--"+o.Name+"="+o.Val) // (there is no way to spell "none" in the file)
				break
			}
			file = append(file, fileLine(o.Name, other[o.Name]))
			args = append(args, "--"+o.Name+"="+o.Val)
		}
	}
	httpsOn := cfg.get("https-address", "127.0.0.1:4152") != ""
	if needCert || rc.Prop == "C11" {
		args = append(args, "--tls-cert="+ndCertDir+"server.pem", "--tls-key="+ndCertDir+"server.key")
		if cfg.get("tls-client-auth-policy", "") == "require-verify" {
			args = append(args, "--tls-root-ca-file="+ndCertDir+"ca.pem")
		}
		if cfg.get("https-address", "?") == "?" {
			args = append(args, "--https-address=127.0.0.1:4152")
		}
	} else if cfg.get("https-address", "?") == "?" {
		args = append(args, "--https-address=")
		httpsOn = false
	}
	_ = httpsOn
	if len(file) > 0 {
		p := filepath.Join(rc.Dir, "nsqd.cfg")
		if err := os.WriteFile(p, []byte(strings.Join(file, "\n")+"\n"), 0644); err != nil {
			panic("harness: " + err.Error())
		}
		args = append(args, "--config="+p)
	}
	w.how = fmt.Sprintf("%v and config file %q", args[5:], file)
	rc.Logf("args %v file %q", args[1:], file)
	saved := os.Args
	os.Args = args
	prg := &program{}
	err := prg.Init(nil)
	os.Args = saved
	if err == nil {
		err = prg.Start()
	}
	if err != nil {
		rc.Violate(rc.Prop, "startup-failed", "program.Init/Start with %s: %v", w.how, err)
		return
	}
	rc.Defer(func() { prg.Stop(); synctest.Wait() })
	synctest.Wait()

	switch rc.Prop {
	case "C11":
		w.probePolicy()
	case "C04":
		w.probeTimeouts()
	default:
		w.probeLimits()
	}
	rc.Res.Ops = 1
	rc.Res.Nontrivial = true
	rc.Res.State = fmt.Sprintf("%v", cfg.Opts)
	sample := map[string]interface{}{"seed": rc.Seed, "args": args[5:], "config_file": file}
	rc.Res.Sample, _ = json.Marshal(sample)
	if rc.Failed() {
		rc.writeReplay(cfg, []Op{{Kind: "probe"}})
	}
}

func (w *ndWorld) probePolicy() {
	cfg, rc := w.cfg, w.rc
	mode := 0
	switch cfg.get("tls-required", "false") {
	case "true", "1":
		mode = 2
	case "tcp-https":
		mode = 1
	}
	if cfg.get("tls-client-auth-policy", "") != "" && mode == 0 {
		mode = 2 // a client certificate policy implies TLS
	}
	auth := cfg.get("auth-http-address", "") != ""
	// plaintext TCP publish
	f, ok, closed := w.one(nil, "PUB t0", []byte("x"))
	rc.Probe("policy_probes")
	switch {
	case mode >= 1:
		if !ok || f.Type != frameError || errCode(f.Data) != "E_INVALID" || !closed {
			w.violate("C11", "plaintext-command-not-refused", "TLS is required for TCP clients, but a plaintext PUB answered %q (answered=%v, closed=%v)", ndTrunc(f.Data, 80), ok, closed)
		}
	case auth:
		if !ok || f.Type != frameError || errCode(f.Data) != "E_AUTH_FIRST" {
			w.violate("C11", "unauthenticated-command-not-refused", "an auth server is configured, but PUB before AUTH answered %q (answered=%v)", ndTrunc(f.Data, 80), ok)
		}
	default:
		if !ok || f.Type != frameResponse {
			w.violate("C11", "permitted-command-refused", "no TLS or AUTH requirement is configured, but a plaintext PUB answered %q (answered=%v)", ndTrunc(f.Data, 80), ok)
		}
	}
	// plaintext HTTP publish
	r := httpDo(rc, "POST", "127.0.0.1:4151", "/pub?topic=t1", []byte("y"), nil, nil, 30*time.Second)
	rc.Probe("policy_probes")
	if r.Err != nil {
		w.violate("C11", "no-response", "POST /pub: %v", r.Err)
		return
	}
	if mode == 2 && r.Status != 403 {
		w.violate("C11", "plaintext-http-not-refused", "TLS is required, but plaintext POST /pub answered %d %q", r.Status, ndTrunc(r.Body, 60))
	}
	if mode != 2 && r.Status != 200 {
		w.violate("C11", "permitted-http-refused", "plaintext HTTP is allowed (mode %d), but POST /pub answered %d %q", mode, r.Status, ndTrunc(r.Body, 60))
	}
}

func (w *ndWorld) probeLimits() {
	cfg := w.cfg
	maxMsg := ndInt(cfg.get("max-msg-size", "1048576"))
	maxBody := ndInt(cfg.get("max-body-size", "5242880"))
	if _, set := w.lookup("max-msg-size"); set {
		f, ok, _ := w.one(nil, "PUB t0", bytes.Repeat([]byte("a"), int(maxMsg)))
		w.expectOK(fmt.Sprintf("PUB of max-msg-size=%d bytes", maxMsg), f, ok)
		f, ok, _ = w.one(nil, "PUB t0", bytes.Repeat([]byte("a"), int(maxMsg)+1))
		w.expectErr(fmt.Sprintf("PUB of max-msg-size+1=%d bytes", maxMsg+1), "E_BAD_MESSAGE", f, ok)
	}
	if _, set := w.lookup("max-body-size"); set {
		// an MPUB whose body is one byte over the limit (messages themselves small enough)
		per := int(maxMsg)
		if per > 50 {
			per = 50
		}
		var bodies [][]byte
		total := 4
		for total <= int(maxBody) {
			bodies = append(bodies, bytes.Repeat([]byte("m"), per))
			total += 4 + per
		}
		f, ok, _ := w.one(nil, "MPUB t0", ndMpub(bodies))
		w.expectErr(fmt.Sprintf("MPUB with a %d byte body (max-body-size %d)", total, maxBody), "E_BAD_BODY", f, ok)
		if len(bodies) > 1 {
			f, ok, _ = w.one(nil, "MPUB t0", ndMpub(bodies[:len(bodies)-1]))
			w.expectOK(fmt.Sprintf("MPUB with a %d byte body (max-body-size %d)", total-4-per, maxBody), f, ok)
		}
	}
	if v, set := w.lookup("max-rdy-count"); set {
		n := ndInt(v)
		sub := func(cl *V2Client) {
			cl.Cmd("SUB t0 c0", nil)
			cl.WaitFrame(10*time.Second, isNonMsg)
		}
		f, ok, closed := w.one(sub, fmt.Sprintf("RDY %d", n), nil)
		w.rc.Probe("limit_probes")
		if ok && f.Type == frameError || closed {
			w.violate("C09", "limit-not-enforced", "RDY max-rdy-count=%d: refused (%q, closed=%v)", n, ndTrunc(f.Data, 60), closed)
		}
		f, ok, _ = w.one(sub, fmt.Sprintf("RDY %d", n+1), nil)
		w.expectErr(fmt.Sprintf("RDY max-rdy-count+1=%d", n+1), "E_INVALID", f, ok)
	}
	if v, set := w.lookup("max-req-timeout"); set {
		d := ndDur(v)
		f, ok, _ := w.one(nil, fmt.Sprintf("DPUB t0 %d", d.Milliseconds()), []byte("d"))
		w.expectOK(fmt.Sprintf("DPUB deferred by max-req-timeout=%v", d), f, ok)
		f, ok, _ = w.one(nil, fmt.Sprintf("DPUB t0 %d", d.Milliseconds()+1), []byte("d"))
		w.expectErr(fmt.Sprintf("DPUB deferred by max-req-timeout+1ms (%v)", d), "E_INVALID", f, ok)
	}
	identify := func(key string, val int64) (Frame, bool) {
		body, _ := json.Marshal(map[string]interface{}{"client_id": "p", key: val})
		f, ok, _ := w.one(nil, "IDENTIFY", body)
		return f, ok
	}
	for _, x := range []struct {
		opt, key string
		dur      bool
	}{{"max-heartbeat-interval", "heartbeat_interval", true}, {"max-output-buffer-size", "output_buffer_size", false},
		{"max-output-buffer-timeout", "output_buffer_timeout", true}, {"max-msg-timeout", "msg_timeout", true}} {
		v, set := w.lookup(x.opt)
		if !set {
			continue
		}
		var n int64
		if x.dur {
			n = ndDur(v).Milliseconds()
		} else {
			n = ndInt(v)
		}
		f, ok := identify(x.key, n)
		w.expectOK(fmt.Sprintf("IDENTIFY %s=%d (%s %s)", x.key, n, x.opt, v), f, ok)
		f, ok = identify(x.key, n+1)
		w.expectErr(fmt.Sprintf("IDENTIFY %s=%d (%s %s)", x.key, n+1, x.opt, v), "E_BAD_BODY", f, ok)
	}
	if v, set := w.lookup("max-deflate-level"); set {
		max := int(ndInt(v))
		cl, err := dialV2(w.rc, "nego", "127.0.0.1:4150", "  V2")
		if err == nil {
			resp, err := cl.Identify(map[string]interface{}{"client_id": "n", "feature_negotiation": true, "deflate": true, "deflate_level": 9}, nil)
			w.rc.Probe("limit_probes")
			got, _ := resp["deflate_level"].(float64)
			if err != nil || int(got) != max {
				w.violate("C09", "limit-not-enforced", "IDENTIFY deflate_level 9 with max-deflate-level %d: negotiated %v (err %v)", max, resp["deflate_level"], err)
			}
			cl.Close()
			synctest.Wait()
		}
	}
}

func (w *ndWorld) lookup(name string) (string, bool) {
	for _, o := range w.cfg.Opts {
		if o.Name == name {
			return o.Val, true
		}
	}
	return "", false
}

func ndTrunc(b []byte, n int) []byte {
	if len(b) > n {
		return b[:n]
	}
	return b
}

// probeTimeouts (C04): the configured msg-timeout and max-req-timeout govern redelivery - never early, and
// not later than a few scan intervals.
func (w *ndWorld) probeTimeouts() {
	cfg, rc := w.cfg, w.rc
	msgT := ndDur(cfg.get("msg-timeout", "1m0s"))
	maxReq := ndDur(cfg.get("max-req-timeout", "1h0m0s"))
	scan := ndDur(cfg.get("queue-scan-interval", "100ms"))
	// (a channel that has just been created is first visited after the next refresh of the scan loop's
	// channel list: queue-scan-refresh-interval, 5 s)
	slack := 3*scan + 5*time.Second + 200*time.Millisecond
	co, err := dialV2(rc, "cons", "127.0.0.1:4150", "  V2")
	if err != nil {
		w.violate("C04", "refused", "connect: %v", err)
		return
	}
	defer func() { co.Close(); synctest.Wait() }()
	// unbuffered output: a frame is received the instant it is sent
	if _, err := co.Identify(map[string]interface{}{"client_id": "cons", "feature_negotiation": true, "output_buffer_size": -1}, nil); err != nil {
		w.violate("C04", "refused", "IDENTIFY: %v", err)
		return
	}
	co.Start()
	co.Cmd("SUB t0 c0", nil)
	co.WaitFrame(10*time.Second, isNonMsg)
	co.Cmd("RDY 1", nil)
	pub, err := dialV2(rc, "pub", "127.0.0.1:4150", "  V2")
	if err != nil {
		return
	}
	defer pub.Close()
	pub.Start()
	pub.Cmd("PUB t0", []byte("timeout-probe"))
	pub.WaitFrame(10*time.Second, isNonMsg)
	isMsg := func(f Frame) bool { return f.Type == frameMessage }
	f, ok := co.WaitFrame(10*time.Second, isMsg)
	if !ok {
		w.violate("C04", "not-delivered", "the first delivery did not arrive")
		return
	}
	m1, _ := decodeWireMsg(f.Data)
	t0 := time.Now()
	rc.Probe("timeout_probes")
	// unanswered: back after msg-timeout, not before
	if f2, early := co.WaitFrame(msgT-time.Millisecond, isMsg); early {
		m2, _ := decodeWireMsg(f2.Data)
		w.violate("C04", "timeout-early", "msg-timeout %v: the unanswered message came back after %v (attempts %d)", msgT, time.Since(t0), m2.Attempts)
		return
	}
	f2, ok := co.WaitFrame(slack+2*time.Millisecond, isMsg)
	if !ok {
		w.violate("C04", "timeout-late", "msg-timeout %v (scan interval %v): the unanswered message has not come back %v after its delivery", msgT, scan, time.Since(t0))
		return
	}
	m2, _ := decodeWireMsg(f2.Data)
	if m2.ID != m1.ID || m2.Attempts != 2 {
		w.violate("C04", "timeout-late", "expected the second delivery of %s, got %s attempts %d", m1.ID, m2.ID, m2.Attempts)
		return
	}
	// requeued with a delay beyond max-req-timeout: back after max-req-timeout, not before, not much later
	if maxReq <= 2*time.Minute {
		rc.Probe("timeout_probes")
		co.Cmd(fmt.Sprintf("REQ %s %d", m2.ID, (maxReq + time.Hour).Milliseconds()), nil)
		t1 := time.Now()
		if f3, early := co.WaitFrame(maxReq-time.Millisecond, isMsg); early {
			m3, _ := decodeWireMsg(f3.Data)
			w.violate("C04", "requeue-early", "max-req-timeout %v: a message requeued with a longer delay came back after %v (attempts %d)", maxReq, time.Since(t1), m3.Attempts)
			return
		}
		if _, ok := co.WaitFrame(slack+2*time.Millisecond, isMsg); !ok {
			w.violate("C04", "delayed-message-late", "max-req-timeout %v (scan interval %v): a message requeued with a longer delay has not come back %v after the REQ", maxReq, scan, time.Since(t1))
		}
	}
}
