"""Build step shared by all checks: generate the simulation seams from /repo's
current working tree and compile the world test binaries with go1.26.8.
Nothing is written into /repo; everything goes to a scratch dir."""
import json, os, shutil, subprocess, sys, hashlib, glob

VERIF = os.path.dirname(os.path.dirname(os.path.abspath(__file__)))
REPO = os.environ.get("VERIF_REPO", "/repo")
GOROOT = "/opt/veriftools/go1.26.8"
GO = GOROOT + "/bin/go"
MODCACHE = "/root/go/pkg/mod"

class BuildError(Exception):
    pass

def goenv():
    e = dict(os.environ)
    e.update(GOFLAGS="-mod=mod", GOPROXY="off", GOSUMDB="off", GOTOOLCHAIN="local",
             GOROOT=GOROOT, PATH=GOROOT + "/bin:" + e.get("PATH", ""))
    e.pop("GOTOOLDIR", None)
    # Go 1.26 randomises the heap base address per process; pointer-keyed maps
    # (nsqd keeps its client connections in a sync.Map keyed by net.Addr) would
    # then iterate in a different order in every process. Switch it off for the
    # simulation binaries so that one seed is one execution.
    e["GOEXPERIMENT"] = "norandomizedheapbase64"
    return e

def run(cmd, cwd=None, env=None, what=""):
    p = subprocess.run(cmd, cwd=cwd, env=env or goenv(), stdout=subprocess.PIPE, stderr=subprocess.STDOUT, text=True)
    if p.returncode != 0:
        raise BuildError("%s failed (%d): %s\n%s" % (what or cmd[0], p.returncode, " ".join(cmd), p.stdout[-6000:]))
    return p.stdout

def patch_once(src, old, new, name):
    if src.count(old) != 1:
        raise BuildError("runtime patch anchor for %s occurs %d times (expected 1)" % (name, src.count(old)))
    return src.replace(old, new)

def runtime_patches(scratch):
    """App. A of DESIGN.md. Returns overlay entries."""
    rt = os.path.join(scratch, "rt")
    os.makedirs(rt, exist_ok=True)
    out = {}
    def rd(n):
        return open(os.path.join(GOROOT, "src/runtime", n)).read()
    def wr(n, s):
        p = os.path.join(rt, n)
        open(p, "w").write(s)
        out[os.path.join(GOROOT, "src/runtime", n)] = p
    s = rd("rand.go")
    s = patch_once(s, "func rand() uint64 {\n", "func rand() uint64 {\n\tif verifSimOn != 0 {\n\t\treturn verifNext(&verifRandState)\n\t}\n", "rand.go")
    wr("rand.go", s)
    s = rd("select.go")
    s = patch_once(s, "j := cheaprandn(uint32(norder + 1))", "j := verifSelRandn(uint32(norder + 1))", "select.go")
    wr("select.go", s)
    s = rd("time.go")
    s = patch_once(s, "t.rand = cheaprand()", "t.rand = verifTimerRand()", "time.go")
    wr("time.go", s)
    s = rd("alg.go")
    s = patch_once(s, "hashkey[i] = uintptr(bootstrapRand())", "hashkey[i] = uintptr(0x9e3779b97f4a7c15 + uint64(i)*0x1234567)", "alg.go/hashkey")
    s = patch_once(s, "key[i] = bootstrapRand()", "key[i] = 0x9e3779b97f4a7c15 + uint64(i)*0x1234567", "alg.go/aes")
    wr("alg.go", s)
    s = rd("proc.go")
    s = patch_once(s, "func retake(now int64) uint32 {\n", "func retake(now int64) uint32 {\n\tif verifSimOn != 0 {\n\t\treturn 0\n\t}\n", "proc.go")
    wr("proc.go", s)
    # sync.Mutex switches to starvation mode (direct hand-off to the waiter) once a
    # waiter has waited more than 1 ms of REAL time: on a loaded machine that changed
    # who got a lock next, and with it the interleaving of a seed. In simulation the
    # mutex sees a clock that stands still.
    s = rd("sema.go")
    s = patch_once(s, "func internal_sync_nanotime() int64 {\n\treturn nanotime()\n}",
                   "func internal_sync_nanotime() int64 {\n\tif verifSimOn != 0 {\n\t\treturn 1\n\t}\n\treturn nanotime()\n}", "sema.go")
    wr("sema.go", s)
    shutil.copy(os.path.join(VERIF, "rt/zverif.go"), os.path.join(rt, "zverif.go"))
    out[os.path.join(GOROOT, "src/runtime/zverif.go")] = os.path.join(rt, "zverif.go")
    return out

REWRITE_SETS = [
    # (rules, clockfiles, dirs relative to repo)
    ("net,os,yield", "guid.go", ["nsqd"]),
    ("net,yield", "", ["nsqlookupd", "nsqadmin", "internal/protocol", "internal/util", "internal/clusterinfo"]),
    ("net", "", ["internal/http_api", "internal/auth", "internal/statsd"]),
    ("exit", "", ["internal/lg"]),
    ("net,os,exit,fatal,signal,yield", "", ["apps/nsq_to_file"]),
    ("net,exit,fatal,signal,stdin,yield", "", ["apps/to_nsq", "apps/nsq_to_nsq", "apps/nsq_to_http"]),
    ("exit", "", ["apps/nsqadmin", "apps/nsqd", "apps/nsqlookupd"]),
]

def ensure_tools():
    b = os.path.join(VERIF, "bin/simrewrite")
    src = os.path.join(VERIF, "tools/simrewrite/main.go")
    if not os.path.exists(b) or os.path.getmtime(b) < os.path.getmtime(src):
        os.makedirs(os.path.join(VERIF, "bin"), exist_ok=True)
        run([GO, "build", "-o", b, "."], cwd=os.path.join(VERIF, "tools/simrewrite"), what="build simrewrite")
    return b

def build(scratch, targets=("world",), verbose=False):
    """Builds the requested test binaries into scratch/bin. Returns dict name->path."""
    os.makedirs(scratch, exist_ok=True)
    rw = ensure_tools()
    overlay = {}
    overlay.update(runtime_patches(scratch))
    rwdir = os.path.join(scratch, "rw")
    for rules, clk, dirs in REWRITE_SETS:
        ds = [os.path.join(REPO, d) for d in dirs if os.path.isdir(os.path.join(REPO, d))]
        if not ds:
            continue
        cmd = [rw, "-out", rwdir, "-strip", REPO + "/", "-rules", rules]
        if clk:
            cmd += ["-clockfiles", clk]
        out = run(cmd + ds, what="simrewrite")
        for line in out.splitlines():
            a, b = line.split("\t")
            overlay[a] = b
    # dependencies: scratch copies, rewritten in place, wired in through replace
    deps = os.path.join(scratch, "deps")
    os.makedirs(deps, exist_ok=True)
    depmods = [("github.com/nsqio/go-nsq", "v1.1.0", "net"), ("github.com/nsqio/go-diskqueue", "v1.1.0", "os")]
    replaces = []
    for mod, ver, rules in depmods:
        src = os.path.join(MODCACHE, mod + "@" + ver)
        dst = os.path.join(deps, os.path.basename(mod))
        if os.path.exists(dst):
            shutil.rmtree(dst)
        shutil.copytree(src, dst)
        for root, _, files in os.walk(dst):
            os.chmod(root, 0o755)
            for f in files:
                os.chmod(os.path.join(root, f), 0o644)
        run([rw, "-inplace", "-rules", rules, dst], what="simrewrite " + mod)
        # the copy needs to see verifsim
        gm = open(os.path.join(dst, "go.mod")).read()
        gm += "\nrequire verifsim v0.0.0\nreplace verifsim => %s/sim\n" % VERIF
        open(os.path.join(dst, "go.mod"), "w").write(gm)
        replaces.append("replace %s => %s\n" % (mod, dst))
    modfile = os.path.join(scratch, "go.mod")
    gm = open(os.path.join(REPO, "go.mod")).read()
    gm += "\nrequire verifsim v0.0.0\nreplace verifsim => %s/sim\n" % VERIF + "".join(replaces)
    open(modfile, "w").write(gm)
    shutil.copy(os.path.join(REPO, "go.sum"), os.path.join(scratch, "go.sum"))
    # world packages (overlay-only directories under the module root)
    for f in sorted(glob.glob(os.path.join(VERIF, "worlds/*.go"))):
        overlay[os.path.join(REPO, "zzverif", os.path.basename(f))] = f
    for app in ("nsq_to_file", "to_nsq", "nsq_to_nsq", "nsq_to_http", "nsqadmin", "nsqd", "nsqlookupd"):
        for f in sorted(glob.glob(os.path.join(VERIF, "inpkg", app, "*.go"))):
            overlay[os.path.join(REPO, "apps", app, os.path.basename(f))] = f
        # the shared harness (run loop, PRNG, replay files, raw clients) as package main
        if glob.glob(os.path.join(VERIF, "inpkg", app, "*.go")):
            shared = os.path.join(scratch, "shared")
            os.makedirs(shared, exist_ok=True)
            for name in ("core_test.go", "client_test.go", "race_on_test.go", "race_off_test.go"):
                src = open(os.path.join(VERIF, "worlds", name)).read()
                if src.count("package zzverif") != 1:
                    raise BuildError("unexpected package clause in worlds/" + name)
                dst = os.path.join(shared, "zzv_" + name)
                open(dst, "w").write(src.replace("package zzverif", "package main"))
                overlay[os.path.join(REPO, "apps", app, "zzv_" + name)] = dst
            for f in sorted(glob.glob(os.path.join(VERIF, "inpkg", "shared", "*.go"))):
                overlay[os.path.join(REPO, "apps", app, os.path.basename(f))] = f
    ov = os.path.join(scratch, "overlay.json")
    json.dump({"Replace": overlay}, open(ov, "w"), indent=1)
    bins = {}
    os.makedirs(os.path.join(scratch, "bin"), exist_ok=True)
    pkgs = {"world": "./zzverif", "world_race": "./zzverif", "nsq_to_file": "./apps/nsq_to_file", "to_nsq": "./apps/to_nsq",
            "nsq_to_nsq": "./apps/nsq_to_nsq", "nsq_to_http": "./apps/nsq_to_http", "nsqadmin": "./apps/nsqadmin", "nsqd": "./apps/nsqd", "nsqlookupd": "./apps/nsqlookupd"}
    for t in targets:
        outp = os.path.join(scratch, "bin", t + ".test")
        flags = ["-race"] if t.endswith("_race") else []
        run([GO, "test", "-c", "-vet=off"] + flags + ["-modfile=" + modfile, "-overlay=" + ov, "-o", outp, pkgs[t]],
            cwd=REPO, what="go test -c " + t)
        bins[t] = outp
    return bins

if __name__ == "__main__":
    import time
    t0 = time.time()
    sc = sys.argv[1] if len(sys.argv) > 1 else "/var/tmp/verif-build-manual"
    tg = sys.argv[2:] or ["world"]
    try:
        print(build(sc, tg))
    except BuildError as e:
        print("BUILD FAILED:", e)
        sys.exit(2)
    print("build took %.1fs" % (time.time() - t0))
