#!/bin/bash
# usage: showrp.sh replay.json [grep]
f=$1
python3 -c "
import json
r=json.load(open('$f'))
c=r['cfg']; print({k:c[k] for k in ('mem_queue_size','msg_timeout_ms','max_msg_timeout_ms','max_req_timeout_ms','output_buffer_timeout_ms','scan_interval_ms','yield_prob','topics','channels','max_rdy','max_msg_size')})
for o in r['ops'] or []: print(' ',o)
print(r['violation'])
"
export GODEBUG=asynctimerchan=0 GOMAXPROCS=1
/var/tmp/vb1/bin/world.test -test.run TestSim -replay $f -dumplog 2>&1 | grep -v "GET /stats\|persisting\|DISKQ\|\[nsqd\]" | cut -c1-${W:-230} | sed -n '/op 0 /,$p' | grep -E "${2:-.}" | head -${N:-70}
