#!/bin/bash
# usage: showrp.sh replay.json [grep]
f=$1
python3 -c "
import json
r=json.load(open('$f'))
print(r['cfg'])
for o in r['ops'] or []: print(' ',o)
print(r['violation'])
"
export GODEBUG=asynctimerchan=0 GOMAXPROCS=1
/var/tmp/vb1/bin/world.test -test.run TestSim -replay $f -dumplog 2>&1 | grep -v "GET /stats\|persisting\|DISKQ\|\[nsqd\]" | cut -c1-${W:-230} | sed -n '/op 0 /,$p' | grep -E "${2:-.}" | head -${N:-70}
