"""Per-property plans: which world binaries/stages a check runs and what its evidence says."""

REAL_Q = ["nsqd (New/LoadMetadata/PersistMetadata/Main/Exit)", "go-diskqueue v1.1.0 on tmpfs", "net/http server and client",
          "internal/protocol, internal/http_api", "crypto/tls, snappy, compress/flate"]
STUB_Q = ["simnet in-memory TCP instead of kernel sockets", "raw V2/HTTP harness clients"]
ASSUME = ["Go 1.26.8 testing/synctest fake clock and the five seeded-runtime patches (DESIGN.md App. A)",
          "AST rewriter: selector substitution + yield insertion only (DESIGN.md 2.2)",
          "one P: code between two synchronisation operations runs atomically",
          "simnet/simos fidelity to TCP/POSIX as described in DESIGN.md 2.6/2.7"]

def q(prop, quick=40, thorough=900, level="exploration", rule=None, extra_stages=()):
    stages = [dict(bin="world", world="queue", prop=prop, share=1.0)]
    stages += list(extra_stages)
    if len(stages) > 1:
        for s in stages:
            s.setdefault("share", 1.0 / len(stages))
        stages[0]["share"] = 1.0 - sum(s["share"] for s in stages[1:])
    return dict(stages=stages, quick_s=quick, thorough_s=thorough, level=level,
                rule=rule or ("each evaluation is one seeded run of the queue world (drawn nsqd configuration, generated operation/fault list, "
                              "seeded yield policy); distinct = distinct schedule fingerprint (hash of the sequence of yield sites executed); "
                              "non-trivial = delivered at least one message and had yields, faults or clock advances"),
                components=dict(real=REAL_Q, stub=STUB_Q), assumptions=ASSUME, crash_property="C08")

PLANS = {
    "C01": q("C01"),
    "C02": q("C02"),
    "C03": q("C03"),
    "C04": q("C04"),
    "C05": q("C05"),
    "C07": q("C07"),
    "C08": q("C08"),
    "C12": q("C12"),
    "C13": q("C13"),
}

WORLD_BIN = {"queue": "world"}
SELFTEST_WORLDS = [("queue", "ALL"), ("queue", "C08"), ("queue", "C05")]
ALL_TARGETS = ["world"]
