"""Per-property plans: which world binaries/stages a check runs and what its evidence says."""

REAL_Q = ["nsqd (New/LoadMetadata/PersistMetadata/Main/Exit)", "go-diskqueue v1.1.0 on tmpfs", "net/http server and client",
          "internal/protocol, internal/http_api", "crypto/tls, snappy, compress/flate"]
STUB_Q = ["simnet in-memory TCP instead of kernel sockets", "raw V2/HTTP harness clients"]
ASSUME = ["Go 1.26.8 testing/synctest fake clock and the five seeded-runtime patches (DESIGN.md App. A)",
          "AST rewriter: selector substitution + yield insertion only (DESIGN.md 2.2)",
          "one P: code between two synchronisation operations runs atomically",
          "simnet/simos fidelity to TCP/POSIX as described in DESIGN.md 2.6/2.7"]

def q(prop, quick=40, thorough=900, level="exploration", rule=None, extra_stages=()):
    stages = [dict(bin="world", world="queue", prop=prop, share=1.0)]
    stages += list(extra_stages)
    if len(stages) > 1:
        for s in stages:
            s.setdefault("share", 1.0 / len(stages))
        stages[0]["share"] = 1.0 - sum(s["share"] for s in stages[1:])
    return dict(stages=stages, quick_s=quick, thorough_s=thorough, level=level,
                rule=rule or ("each evaluation is one seeded run of the queue world (drawn nsqd configuration, generated operation/fault list, "
                              "seeded yield policy); distinct = distinct schedule fingerprint (hash of the sequence of yield sites executed); "
                              "non-trivial = delivered at least one message and had yields, faults or clock advances"),
                components=dict(real=REAL_Q, stub=STUB_Q), assumptions=ASSUME, crash_property=prop)

PLANS = {
    "C01": q("C01"),
    "C02": q("C02"),
    "C03": q("C03"),
    "C04": q("C04"),
    "C05": q("C05"),
    "C07": q("C07"),
    "C08": q("C08"),
    "C12": q("C12"),
    "C13": q("C13"),
}

REAL_L = ["nsqlookupd (New/Main/Exit): TCP protocol V1, HTTP API, registration DB", "internal/protocol, internal/http_api", "net/http server"]

def lk(prop, rule, quick=30, thorough=600):
    return dict(stages=[dict(bin="world", world="lookupd", prop=prop, share=1.0)], quick_s=quick, thorough_s=thorough, level="exploration",
                rule=rule, components=dict(real=REAL_L, stub=STUB_Q + ["raw V1 producer connections"]), assumptions=ASSUME, crash_property="C15")

PLANS["C14"] = lk("C14", "each evaluation is one seeded run of the lookupd world, of three kinds. (1) ENUMERATED: every second seed is one history of the exhaustive enumeration of all sequential histories of length 3 (quick tier; 22^3 x 4 = 42592 histories, mirror images under swapping the two producers skipped) or 4 (thorough tier; 937024) over the alphabet {REGISTER t, REGISTER t c, UNREGISTER t, UNREGISTER t c, close, reconnect+IDENTIFY, PING} x 2 producers + {create/delete topic, create/delete channel, tombstone producer 0/1, advance past the tombstone lifetime, advance past the inactivity timeout}, in the four durable/ephemeral variants of the topic and channel name; probes enumerated_histories_len3/len4 count how many were run. (2) RANDOM sequential histories: 1-4 producer connections (IDENTIFY/REGISTER/UNREGISTER/PING/close/reset, optionally two connections advertising the same address), HTTP admin calls, clock advances across inactivity and tombstone thresholds; after every step /lookup, /topics, /channels, /nodes must equal a plain registry model. (3) CONCURRENT bursts: up to five commands (several producers on the same topic, disconnects, admin create/delete/tombstone) are issued before the daemon runs any of them and interleaved by the seeded scheduler; the reference executes each command as its sequence of key-level atomic updates, explores ALL interleavings that respect per-connection order, and the reads after the burst (and the burst's own HTTP status codes) must equal the outcome of at least one interleaving; distinct = distinct schedule fingerprint; non-trivial = at least 5 operations with reads checked", quick=40, thorough=900)
PLANS["C15"] = lk("C15", "each evaluation is one seeded run of the lookupd world with hostile TCP byte streams (wrong magic, every IDENTIFY length incl. negative/huge, malformed JSON, commands before IDENTIFY, bad names, garbage) and hostile HTTP requests (route x method x argument combinations) interleaved with well-behaved bystander producers whose registrations are re-read after every step; distinct = distinct schedule fingerprint")

def pr(prop, rule, crash, quick=30, thorough=600):
    return dict(stages=[dict(bin="world", world="proto", prop=prop, share=1.0)], quick_s=quick, thorough_s=thorough, level="exploration",
                rule=rule, components=dict(real=REAL_Q, stub=STUB_Q), assumptions=ASSUME, crash_property=crash)

PLANS["C09"] = pr("C09", "each evaluation is one seeded run of the protocol world: up to three hostile raw TCP connections execute generated V2 command streams (every command x connection state x boundary values of sizes, counts, RDY, delays and IDENTIFY options; wrong magic; truncated bodies; garbage and mutated streams; short reads) while a well-behaved publisher/consumer pair does round trips; an executable reference of the documented protocol predicts code, fatality and closure, and /stats confirms that rejected publishes enqueued nothing; distinct = distinct schedule fingerprint", "C09")
PLANS["C10"] = pr("C10", "each evaluation is one seeded run of the protocol world: generated HTTP/1.1 requests (route x method x present/missing/invalid arguments x body sizes around the limits, Content-Length and chunked, text and binary mpub) checked against a reference table of admissible status codes (never 5xx), /stats compared with the model of topics/channels/paused flags/message counts after every request, and every generated publish executed twice (HTTP on one topic, the equivalent TCP command on a twin topic) with acceptance and delivered multisets compared; distinct = distinct schedule fingerprint", "C10")

PLANS["C06"] = dict(stages=[dict(bin="world", world="meta", prop="C06", share=1.0)], quick_s=30, thorough_s=600, level="fault_enumeration",
    rule="each evaluation is one seeded history of topic/channel create/delete/pause/unpause (HTTP and SUB), idle points, second-instance attempts and graceful restarts against the real nsqd whose file-system calls go through simos; EVERY hook boundary of every metadata write (before/after open, write, sync, close, rename), every acknowledgement and every idle point is a kill point: nsqd.dat must parse there, and a fresh nsqd started on that file must show a registry the daemon passed through since the last idle point and reflect every acknowledged pause; one third of the runs inject EIO/ENOSPC/short writes into the metadata write; distinct = distinct schedule fingerprint; non-trivial = more than 3 kill points",
    components=dict(real=REAL_Q + ["internal/dirlock (real flock)"], stub=STUB_Q + ["simos hooks around os file calls (forwarding to the real tmpfs)"]), assumptions=ASSUME + ["SIGKILL model: every completed system call is visible after the kill, nothing of a call not yet made is"], crash_property="C06")

PLANS["C16"] = dict(stages=[dict(bin="world", world="cluster", prop="C16", share=1.0)], quick_s=30, thorough_s=600, level="exploration",
    rule="each evaluation is one seeded run of the cluster world: one real nsqd configured with 1-3 real nsqlookupd (and, in half of the runs, a hostile stub lookupd answering negative/oversized length prefixes, garbage, truncated frames, stalls); topic/channel churn and publishes on the nsqd interleaved with lookupd faults (refuse, blackhole, accept-then-close, connection resets, restart with empty state), runtime reconfiguration of the lookupd list and clock advances over several 15 s heartbeats; oracles: nsqd stays up and answers within the documented blocking-lookup bound, a topic's first message reaches every channel all lookupds already knew, and 55 simulated seconds after the last fault every configured real lookupd's /debug lists this nsqd for exactly its current topics and channels; distinct = distinct schedule fingerprint; non-trivial = at least one fault fired",
    components=dict(real=REAL_Q + REAL_L + ["internal/clusterinfo (lookupd channel query)"], stub=STUB_Q + ["hostile stub lookupd (listener in the harness)"]), assumptions=ASSUME, crash_property="C16")

REAL_A = ["nsqadmin (New/Main/Exit): HTTP API, ACL and CIDR gates", "internal/clusterinfo (fan-out, aggregation, partial errors)", "internal/http_api client", "net/http"]
def ad(prop, rule):
    return dict(stages=[dict(bin="world", world="admin", prop=prop, share=1.0)], quick_s=30, thorough_s=600, level="exploration", rule=rule,
                components=dict(real=REAL_A, stub=STUB_Q + ["stub nsqd and nsqlookupd upstreams (HTTP handlers in the harness that serve generated cluster data, record every request and fail in generated ways)"]),
                assumptions=ASSUME, crash_property="C18")
PLANS["C17"] = ad("C17", "each evaluation is one seeded run of the admin world: real nsqadmin with a drawn admin list / ACL header / config CIDR in front of recording stub upstreams; every mutating route with every identity variant (absent, empty, non-admin, admin, case/whitespace/prefix look-alikes, right user in the wrong header, list of users) and /config from source addresses inside/outside/at the edge of the CIDR (v4 and v6); oracles: not authorised => 403 and ZERO upstream requests in that step, authorised => carried out on every relevant lookupd and producer (stub request log), read views available; distinct = distinct schedule fingerprint")
PLANS["C17"]["stages"][0]["share"] = 0.8
PLANS["C17"]["stages"].append(dict(bin="nsqadmin", world="adminapp", prop="C17", share=0.2))
PLANS["C17"]["rule"] += "; a fifth of the budget runs the application world: the real program.Start() of apps/nsqadmin (flag set, TOML config file, options.Resolve, nsqadmin.New, Main) is configured the way an operator does it - admin users, ACL header and config CIDR given as command-line flags, as config-file keys, or both with the flags winning - in front of a recording stub nsqlookupd, and the same gate oracle applies (403 and zero upstream requests unless the configured identity is presented; /config only from inside the configured CIDR)"
PLANS["C17"]["components"] = dict(real=REAL_A + ["apps/nsqadmin: program.Start (nsqadminFlagSet, toml.DecodeFile, config.Validate, options.Resolve)"], stub=PLANS["C17"]["components"]["stub"])
PLANS["C18"] = ad("C18", "each evaluation is one seeded run of the admin world: 0-3 stub lookupds and 1-4 stub nsqds with generated topics/channels/clients/counters (zero, huge, optional fields missing, nodes unknown to some lookupds, tombstones), lookupd and direct mode; any subset of upstreams failing by refuse / blackhole / reset mid-body / HTTP 500 / malformed JSON / inconsistent arrays / empty body; oracle: /api/topics, /api/topics/:t, /api/topics/:t/:c, /api/nodes, /api/counter equal a reference union/sum over the healthy upstreams, partial failure => 200 with a warning, total failure => 502, nsqadmin answers /ping after every step; distinct = distinct schedule fingerprint")

PLANS["C11"] = dict(stages=[dict(bin="world", world="policy", prop="C11", share=1.0)], quick_s=30, thorough_s=600, level="exploration",
    rule="each evaluation is one seeded run of the policy world: one real nsqd with a drawn TLS mode (not required / tcp-https / required), optional server certificate, client-certificate policy (none / require / require-verify) and 0-2 stub auth servers (GET or POST) serving a grant table that generated operations change; three raw TCP connections (no IDENTIFY, plain IDENTIFY, TLS upgrade with no / CA-signed / self-signed client certificate, plaintext command pipelined behind the TLS-negotiating IDENTIFY) issue AUTH/PUB/MPUB/DPUB/SUB/NOP/RDY/CLS, plaintext HTTP and HTTPS requests, clock advances across TTLs, auth-server failure modes (500, 403, garbage, reset, stall, ttl 0, unknown permission, bad regex); a reference gate predicts OK or the documented fatal error, the auth stub checks that every query describes the connection truthfully, and after every operation nsqd's registry (topics, channels, message counts) must equal the reference registry; distinct = distinct schedule fingerprint",
    components=dict(real=REAL_Q + ["internal/auth (QueryAnyAuthd over simnet)", "crypto/tls server and client handshakes with the repository's test certificates"], stub=STUB_Q + ["stub auth servers (HTTP handlers in the harness)"]), assumptions=ASSUME, crash_property="C11")

# Race stage: the same world built with the Go race detector (happens-before
# based, so it sees unsynchronised accesses on one P); only races with both
# accesses in nsq code count. Used where the property has a "does not crash /
# stays correct under concurrency" clause.
RACE_NOTE = "; a share of the budget runs the same world built with -race: a data race between two accesses in nsq code is a violation (class data-race)"
for _p, _share in (("C02", 0.2), ("C08", 0.3), ("C09", 0.25), ("C12", 0.25), ("C15", 0.3), ("C16", 0.25), ("C18", 0.3)):
    _st = PLANS[_p]["stages"]
    _st[0]["share"] = 1.0 - _share
    _st.append(dict(bin="world_race", world=_st[0]["world"], prop=_st[0].get("prop", _p), share=_share))
    PLANS[_p]["rule"] += RACE_NOTE
    PLANS[_p]["assumptions"] = PLANS[_p]["assumptions"] + ["race stage: Go race detector semantics (happens-before over sync operations; simnet's mutex/cond stands in for the kernel's socket synchronisation)"]

PLANS["C14"]["stages"][0]["share"] = 0.93
PLANS["C14"]["stages"].append(dict(bin="nsqlookupd", world="lookupdapp", prop="C14", share=0.07))
PLANS["C14"]["rule"] += "; a small share of the budget runs the application world: the real program.Start() of apps/nsqlookupd (flag set, TOML config file, options.Resolve, New, Main) is given inactive-producer-timeout and tombstone-lifetime as flags, config-file keys, or both with the flags winning, and /lookup must change exactly 1 ms before/after the configured durations have passed"
PLANS["C14"]["components"] = dict(real=REAL_L + ["apps/nsqlookupd: program.Start (nsqlookupdFlagSet, toml.DecodeFile, options.Resolve)"], stub=PLANS["C14"]["components"]["stub"])

# application stage: the real program.Init()/Start() of apps/nsqd configured by flags and a TOML file
APP_NOTE = "; a share of the budget runs the application world: the real program.Init()/Start() of apps/nsqd (flag set, TOML config file, config.Validate, options.Resolve, nsqd.New, LoadMetadata, Main) is given %s as command-line flags, as config-file keys, or both with the flags winning, and the daemon must enforce exactly the configured values"
for _p, _share, _what in (("C09", 0.1, "its limits (max-msg-size, max-body-size, max-rdy-count, max-req-timeout, max-heartbeat-interval, max-output-buffer-size/-timeout, max-msg-timeout, max-deflate-level; each probed at the value and one past it)"),
                          ("C04", 0.05, "msg-timeout, max-msg-timeout and max-req-timeout (an unanswered message comes back at msg-timeout, not 1 ms earlier and within three scan intervals; a REQ beyond max-req-timeout is released at max-req-timeout)"),
                          ("C11", 0.15, "its TLS requirement (true/false/tcp-https/1/0, client certificate policy), HTTPS listener and auth server (probed with a plaintext PUB and a plaintext HTTP publish)")):
    _st = PLANS[_p]["stages"]
    for _s in _st:
        _s["share"] = _s["share"] * (1.0 - _share)
    _st.append(dict(bin="nsqd", world="nsqdapp", prop=_p, share=_share))
    PLANS[_p]["rule"] += APP_NOTE % _what
    PLANS[_p]["components"] = dict(real=PLANS[_p]["components"]["real"] + ["apps/nsqd: program.Init/Start (nsqdFlagSet, toml.DecodeFile, config.Validate, options.Resolve)"], stub=PLANS[_p]["components"]["stub"])

# C12's race stage only counts races that involve the id generator (other races belong to C02/C08/C09)
PLANS["C12"]["race_match"] = r"guid\.go|GenerateID|GUID|guids"

REAL_APP = ["nsqd (New/LoadMetadata/PersistMetadata/Main/Exit)", "go-nsq v1.1.0 consumer/producer (rewritten copy: net only)", "go-diskqueue v1.1.0 on tmpfs", "internal/clusterinfo, internal/http_api"]
PLANS["C19"] = dict(stages=[dict(bin="nsq_to_file", world="tofile", prop="C19", share=1.0)], quick_s=30, thorough_s=600, level="fault_enumeration",
    rule="each evaluation is one seeded run of the nsq_to_file world: the application's real TopicDiscoverer/FileLogger/router and go-nsq consumer against a real nsqd, with a drawn combination of gzip and level, rotate-size, rotate-interval, datetime format (rolling over inside the run), work-dir, skip-empty-files, sync-interval, max-in-flight, nsqd memory queue and message timeout, planted files with colliding names, disk error / short write injection; operations: publishes (bodies with newlines, NULs, gzip magic), clock advances, SIGHUP, SIGTERM + new instance, SIGKILL now or at the k-th file-system call + new instance, connection resets; ENUMERATED inside every history: every instant the application writes a FIN (tap on its connection) and every file-system mutation (simos hooks) - at each FIN the body and newline must lie inside the fsynced prefix (complete gzip members) of some file, after every rename/link/remove/create every message acknowledged so far must still be in a readable file, and files that existed before an instance started keep their content as a prefix; final accounting: acknowledged publishes not in files <= what the channel still owes; distinct = distinct schedule fingerprint; non-trivial = at least one FIN checked",
    components=dict(real=REAL_APP + ["apps/nsq_to_file: newTopicDiscoverer/run, FileLogger (HandleMessage, router, Sync, Close, updateFile, exclusiveRename), strftime"], stub=STUB_Q + ["main() flag parsing is not executed: Options are filled in directly; signals are delivered on the channels main() would register"]),
    assumptions=ASSUME + ["SIGKILL model: every completed system call is visible after the kill, nothing of a call not yet made is; a killed process's later calls fail and its connections are cut at the same instant"], crash_property="C19")

PLANS["C20"] = dict(stages=[dict(bin="to_nsq", world="tonsq", prop="C20", share=0.2), dict(bin="nsq_to_nsq", world="nsq2nsq", prop="C20", share=0.4), dict(bin="nsq_to_http", world="nsq2http", prop="C20", share=0.4)],
    quick_s=45, thorough_s=900, level="exploration",
    rule="three stages, each evaluation one seeded run: (to_nsq) the real main() of to_nsq reads a generated byte stream (any bytes, drawn delimiter, empty records, records around the 4096/8192 bufio boundaries, with or without a final delimiter) through a reader that returns arbitrary short reads, optionally rate-limited, and publishes to 1-2 stub nsqds; every destination must have accepted exactly the non-empty records, byte-exact, in order; (nsq_to_nsq) the real main() between a real source nsqd and 1-3 stub nsqds that accept / reject / reject-and-close / stall / reset / refuse on generated commands, in round-robin, hostpool and epsilon-greedy mode, with and without a require-json-field filter and destination-topic; (nsq_to_http) the same with 1-3 stub HTTP endpoints answering 200 / 204 / 500 / 404 / 304 / stall / reset / refuse, GET and POST; in both relay stages a tap on the application's source connections shows every FIN and REQ it writes: at each FIN some destination must already have accepted the body (unless the requested filter drops it), and once every destination accepts again every source message must have arrived within 4 simulated hours, unmodified; distinct = distinct schedule fingerprint; non-trivial = at least one record compared / one FIN checked",
    components=dict(real=REAL_APP + ["apps/to_nsq, apps/nsq_to_nsq, apps/nsq_to_http: the real main() (flag parsing on a fresh FlagSet bound to the package's flag variables, option validation, producers/consumers, responder, signal handling)", "github.com/bitly/go-hostpool, timer_metrics"], stub=STUB_Q + ["stub destination nsqds (minimal V2 server in the harness)", "stub HTTP endpoints (net/http handlers in the harness)", "simos.Stdin reader with short reads"]),
    assumptions=ASSUME, crash_property="C20")

WORLD_BIN = {"lookupdapp": "nsqlookupd", "nsqdapp": "nsqd", "adminapp": "nsqadmin", "tonsq": "to_nsq", "nsq2nsq": "nsq_to_nsq", "nsq2http": "nsq_to_http", "tofile": "nsq_to_file", "policy": "world", "queue": "world", "lookupd": "world", "proto": "world", "meta": "world", "cluster": "world", "admin": "world"}
SELFTEST_WORLDS = [("queue", "ALL"), ("queue", "C08"), ("queue", "C05"), ("queue", "C12"), ("lookupd", "C14"), ("lookupd", "C15"), ("proto", "C09"), ("proto", "C10"),
                   ("policy", "C11"), ("meta", "C06"), ("cluster", "C16"), ("admin", "C17"), ("admin", "C18"), ("adminapp", "C17"), ("lookupdapp", "C14"), ("nsqdapp", "C09"), ("nsqdapp", "C11"), ("nsqdapp", "C04"), ("tofile", "C19"), ("tonsq", "C20"), ("nsq2nsq", "C20"), ("nsq2http", "C20")]
ALL_TARGETS = ["world", "world_race", "nsq_to_file", "to_nsq", "nsq_to_nsq", "nsq_to_http", "nsqadmin", "nsqd", "nsqlookupd"]

SIMNOTE = ("assumes the trusted base of DESIGN.md 6: Go 1.26.8 synctest + five runtime patches, the two-rule AST rewriter, simnet/simos fidelity, "
           "one-P atomicity between synchronisation operations; oracles see the wire only (frames, HTTP, /stats, data directory)")

def mt(text, ref, technique, note=SIMNOTE):
    return dict(text=text, ref=ref, technique=technique, note=note)

MANIFEST_TEXT = {
 "C01": mt("seeded search over publish/consume/fault histories, schedules and queue configurations against the real nsqd; oracle: ledger conservation (every acknowledged publish is finished on every channel that existed, or still owed) plus bounded-liveness drain once faults stop. Sampling, not proof.", "DESIGN.md 3 C01", "deterministic simulation: ledger conservation + drain liveness"),
 "C02": mt("seeded search with contention, late/wrong/duplicate answers and clock advances at deadlines; oracle: per (channel,message) history automaton (attempts sequence, exclusive holder via REQ/timeout arithmetic on the fake clock, FIN final, non-holder answers refused non-fatally).", "DESIGN.md 3 C02", "deterministic simulation: per-message ownership automaton"),
 "C03": mt("seeded search over RDY/CLS/pause/unpause histories with competing consumers; oracle: per-connection model of RDY vs. certainly-unexpired outstanding messages, nothing after CLS/pause acknowledged, RDY range fatal.", "DESIGN.md 3 C03", "deterministic simulation: per-connection flow-control model"),
 "C04": mt("seeded search over timeout/delay values and spellings with exact fake-clock arithmetic: never-early for timeouts (with TOUCH cap), REQ delays (clamped) and in-memory deferred publishes; boundedly late (redelivery within max-msg-timeout + scan slack; no channel holds more in flight than it handed out within that window); out-of-range/overflowing spellings rejected or clamped.", "DESIGN.md 3 C04", "deterministic simulation: fake-clock timing oracle + spelling table"),
 "C05": mt("seeded search over histories with graceful Exit (also inside bursts) and restart on the same data path, up to 3 cycles; oracle: registry and paused flags survive, every acknowledged unfinished message is delivered again with continuing attempts, finished ones never reappear.", "DESIGN.md 3 C05", "deterministic simulation: ledger across daemon lifetimes"),
 "C07": mt("seeded search over adversarial bodies x publish path x queue path x negotiated TLS/snappy/deflate/buffer settings with short reads; oracle: byte equality by unique body, id format, id/timestamp stable across redeliveries and channels, timestamp within publish interval.", "DESIGN.md 3 C07", "deterministic simulation: byte-exact content/envelope oracle"),
 "C08": mt("seeded search with delete/empty/pause/create issued concurrently (bursts, seeded yields) with publishes, deliveries, FIN/REQ/TOUCH and timeouts on durable and ephemeral objects; oracle: no daemon panic/hang, registry and data-dir state after acknowledged operations, discarded backlog never delivered, counters non-negative.", "DESIGN.md 3 C08", "deterministic simulation: crash/hang detection + post-operation state model"),
 "C12": mt("seeded search with concurrent TCP/HTTP single and multi publishes while the fake clock stands still (sequence exhaustion is the normal case); oracle: ids unique per topic incarnation and increasing along real-time (acknowledged-before-sent) order and inside MPUB batches.", "DESIGN.md 3 C12", "deterministic simulation: uniqueness + real-time order of ids"),
 "C13": mt("seeded search with /stats snapshots (JSON, text, filters) at quiescent points; oracle: conservation law per channel against the ledger, topic counters vs. acknowledged publishes, per-consumer counts, no negative count, renderings agree.", "DESIGN.md 3 C13", "deterministic simulation: conservation laws vs. ledger"),
}

MANIFEST_TEXT["C14"] = mt("seeded search over producer/admin histories and clock advances against the real nsqlookupd; oracle: after every step every read endpoint equals a plain registry model (producers = connected, recently pinged, registered, not tombstoned); sequential histories up to length 3 (quick) / 4 (thorough) over a 22-symbol alphabet are enumerated exhaustively; concurrent bursts of non-commuting commands are checked against all interleavings of a key-level non-deterministic reference (refinement).", "DESIGN.md 3 C14 and 7.9", "deterministic simulation: refinement of a registry model (exhaustive short histories + all-interleavings reference for concurrent bursts)")
MANIFEST_TEXT["C15"] = mt("seeded search over hostile TCP byte streams and HTTP requests against the real nsqlookupd with bystander producers; oracle: process stays up (a panic is attributed through the write-ahead seed log), keeps answering, bystander registrations intact, documented error codes, no HTTP 5xx.", "DESIGN.md 3 C15", "deterministic simulation: hostile-input robustness with bystander oracle")

MANIFEST_TEXT["C09"] = mt("seeded search over generated V2 command streams, connection states and boundary values against the real nsqd with a bystander; oracle: executable reference of the documented protocol (code, fatality, closure per command and state) plus side-effect check through /stats (rejected PUB/DPUB enqueue nothing, MPUB all-or-nothing) and bystander round trips. Largely input-driven; the simulator adds short reads, resets at arbitrary points, the fake clock and replay.", "DESIGN.md 3 C09", "deterministic simulation: protocol reference table + side-effect oracle")
MANIFEST_TEXT["C10"] = mt("seeded search over generated HTTP requests against the real nsqd; oracle: reference table of admissible status codes (never 5xx), registry/counter model compared with /stats after every request, the list-valued run-time option read back after every PUT, and HTTP-vs-TCP twin publishes whose acceptance and consumed multisets must agree.", "DESIGN.md 3 C10", "deterministic simulation: status reference + HTTP/TCP twin equivalence")

MANIFEST_TEXT["C06"] = mt("fault enumeration: every simos hook boundary of every metadata write in every generated history is a SIGKILL point (plus acknowledgements and idle points); at each the file must be absent or a complete document, and a fresh nsqd on that snapshot must load and show a registry state the original passed through since the last idle point, with acknowledged pauses reflected; write-fault injection keeps the previous file; a second instance on a data path in use is refused. Histories are sampled by seed; kill points within a history are enumerated exhaustively.", "DESIGN.md 3 C06", "deterministic simulation: kill-point enumeration over simos hooks + restart comparison")

MANIFEST_TEXT["C16"] = mt("seeded search over interleavings of nsqd topic/channel churn with lookupd fault sequences (network faults from simnet, restarts, a hostile stub) against real nsqd and nsqlookupd; oracles: liveness of nsqd (crash attribution, answer latency bound), channel pre-creation on first publish, bounded-time convergence of every lookupd's registrations to nsqd's registry once faults stop.", "DESIGN.md 3 C16", "deterministic simulation: fault injection on the lookupd links + convergence oracle")

MANIFEST_TEXT["C11"] = mt("seeded search over policy configurations and command sequences against the real nsqd with real TLS handshakes and stub auth servers whose answers change and fail; oracle: reference gate (TLS gate before everything but IDENTIFY, 403 for plaintext HTTP, E_AUTH_FIRST / E_UNAUTHORIZED / E_AUTH_FAILED, TTL re-fetch) plus registry equality after every operation (a denial leaves no topic, channel or message; a grant is executed) and truthfulness of the auth query.", "DESIGN.md 3 C11", "deterministic simulation: reference policy gate + registry equality")

MANIFEST_TEXT["C19"] = mt("fault enumeration inside seeded histories: every FIN the real nsq_to_file writes (connection tap) and every file-system mutation it performs (simos hooks) is a stop point; at each the acknowledged messages must be inside fsynced, readable (gzip: complete members) file content, and files that existed before (earlier instances, planted collisions) keep their content; SIGTERM/SIGHUP/SIGKILL-at-the-k-th-call with restarts, disk faults, connection resets. Histories are sampled by seed; stop points within a history are enumerated exhaustively.", "DESIGN.md 3 C19 / 7.2", "deterministic simulation: stop-point enumeration over FIN taps and simos hooks")

MANIFEST_TEXT["C20"] = mt("seeded search with the real main() of to_nsq, nsq_to_nsq and nsq_to_http in the bubble: to_nsq against a reference record splitter (short reads, buffer boundaries, missing final delimiter); the relays between a real source nsqd and stub destinations that fail in generated patterns, with a tap on the source connections: no FIN before a destination accepted the body, every message arrives at least once after the faults stop, nothing modified.", "DESIGN.md 3 C20 / 7.2", "deterministic simulation: reference splitter + FIN-after-acceptance taps + bounded liveness after faults")

MANIFEST_TEXT["C17"] = mt("seeded search over route x identity x admin-list x header-name x source-address configurations against the real nsqadmin in front of recording stub upstreams; oracle: 403 and zero upstream requests for every unauthorised mutation, fan-out to every relevant upstream for authorised ones, CIDR gate on /config. Input- and configuration-driven; the simulator contributes source addresses, the per-step upstream request log and determinism.", "DESIGN.md 3 C17", "deterministic simulation: authorisation matrix with upstream request log")
MANIFEST_TEXT["C18"] = mt("seeded search over generated cluster contents and upstream fault subsets against the real nsqadmin/clusterinfo; oracle: reference union/sum aggregation computed from the stub data, warning/502 mapping, liveness after every request.", "DESIGN.md 3 C18", "deterministic simulation: reference aggregation under upstream faults")

NOT_APPLICABLE = {
}
