import json,sys,collections
cnt=collections.Counter(); ex={}
n=ok=0
for l in open(sys.argv[1]):
    l=l.strip()
    if not l.startswith('{"seed"'): continue
    try: r=json.loads(l)
    except Exception: continue
    n+=1
    if r['ok']: ok+=1; continue
    v=r['violation']; k=(v['property'],v['class']); cnt[k]+=1
    ex.setdefault(k,(r['seed'],v['detail'][:300]))
print("runs",n,"ok",ok)
for k,c in cnt.most_common():
    print(c,k,ex[k])
