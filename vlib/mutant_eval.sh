#!/bin/bash
# usage: mutant_eval.sh <property> <worktree> <mutant-name> [extra vcheck props...]
# Confirms a sub-agent's mutant in its scratch worktree (builds, suite passes, demo fails with / passes
# without the change), then applies it to /repo, runs the check(s), and reverts /repo.
set -u
export GOFLAGS=-mod=mod GOPROXY=off GOSUMDB=off
PROP=$1; WT=$2; NAME=$3; shift 3
CHECKS="$PROP $*"
M=$WT/mutants/$NAME
OUT=/verif/seeded/$PROP-$NAME
mkdir -p $OUT
cp $M/patch.diff $OUT/patch.diff
cp $M/meta.json $OUT/agent_meta.json 2>/dev/null
for f in $M/*.go; do [ -f "$f" ] && cp "$f" $OUT/$(basename $f).txt; done
cd $WT && git checkout -q -- . && git clean -fdq -e mutants >/dev/null 2>&1
democmd=$(python3 -c "import json;print(json.load(open('$M/meta.json')).get('demo_cmd',''))" 2>/dev/null)
res_build=fail; res_suite=fail; res_demo_with=unknown; res_demo_without=unknown
if git apply --check $M/patch.diff 2>/dev/null; then
  git apply $M/patch.diff
  if go build ./... 2>$OUT/build.log; then res_build=ok; fi
  if go test -vet=off -count=1 $(go list ./... | grep -v /mutants) >$OUT/suite.log 2>&1; then res_suite=ok; else res_suite=FAILS; fi
  # demo: copy demo_test.go into the package named in its first comment lines (heuristic: 'copy it to X')
  dest=$(grep -ho "[a-z_/]*zz[a-z_]*_test.go" $M/demo_test.go $M/meta.json 2>/dev/null | grep / | head -1)
  if [ -z "$dest" ] && [ -f $M/demo_test.go ]; then
    pk=$(grep -m1 "^package " $M/demo_test.go | awk '{print $2}')
    case "$pk" in
      nsqd|nsqlookupd|nsqadmin) dest=$pk/zz_demo_test.go;;
      main) d=$(grep -ho "apps/[a-z_]*" $M/demo_test.go $M/meta.json | head -1); [ -n "$d" ] && dest=$d/zz_demo_test.go;;
      *) d=$(grep -ho "internal/[a-z_]*" $M/demo_test.go $M/meta.json | head -1); [ -n "$d" ] && dest=$d/zz_demo_test.go;;
    esac
  fi
  if [ -n "$dest" ] && [ -f $M/demo_test.go ]; then
    cp $M/demo_test.go $WT/$dest
    run=$(grep -ho "\-run ['\"]\?[A-Za-z0-9_|^$.*()]*" $M/demo_test.go $M/meta.json | head -1 | tr -d "'\"")
    pkg=./$(dirname $dest)/
    if timeout 300 go test -vet=off -count=1 $run $pkg >$OUT/demo_with.log 2>&1; then res_demo_with=PASSES; else res_demo_with=fails; fi
    git checkout -q -- .
    if timeout 300 go test -vet=off -count=1 $run $pkg >$OUT/demo_without.log 2>&1; then res_demo_without=passes; else res_demo_without=FAILS; fi
    rm -f $WT/$dest
  fi
  git checkout -q -- .
else
  echo "patch does not apply" > $OUT/build.log
fi
cd /verif
detected=""
if [ -n "${CONFIRM_ONLY:-}" ]; then
python3 - <<PY
import json
m=json.load(open("$OUT/meta.json"))
m["confirmed"]=dict(builds="$res_build", suite="$res_suite", demo_with_change="$res_demo_with", demo_without_change="$res_demo_without")
json.dump(m, open("$OUT/meta.json","w"), indent=1)
print("$PROP-$NAME (confirm only)", m["confirmed"], m.get("checks_run"))
PY
exit 0
fi
ER=${EVALREPO:-/repo}
git -C $ER checkout -q -- . 2>/dev/null
if git -C $ER apply --check $OUT/patch.diff 2>/dev/null; then
  git -C $ER apply $OUT/patch.diff
  for c in $CHECKS; do
    VERIF_REPO=$ER ./vcheck $c --tier quick --noevidence > $OUT/vcheck_$c.log 2>&1; rc=$?
    v=$(grep -c "^VIOLATION" $OUT/vcheck_$c.log)
    detected="$detected $c:rc=$rc:violations=$v"
    mkdir -p $OUT/replays; for r in $(grep -o "replay=[^ ]*" $OUT/vcheck_$c.log | cut -d= -f2); do cp $r $OUT/replays/ 2>/dev/null; done
  done
  git -C $ER checkout -q -- .
else
  detected="patch-does-not-apply-to-repo"
fi
python3 - <<PY
import json
meta=dict(property="$PROP", name="$NAME", confirmed=dict(builds="$res_build", suite="$res_suite", demo_with_change="$res_demo_with", demo_without_change="$res_demo_without"), checks_run="$detected".split(), demo_cmd="""$democmd""")
try: meta["agent"]=json.load(open("$OUT/agent_meta.json"))
except Exception: pass
json.dump(meta, open("$OUT/meta.json","w"), indent=1)
print("$PROP-$NAME", meta["confirmed"], meta["checks_run"])
PY
