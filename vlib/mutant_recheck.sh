#!/bin/bash
# usage: mutant_recheck.sh <seeded-name> [check ...]   (default check: the mutant's property)
# Re-runs the quick check(s) against an already confirmed seeded change (applied to a scratch worktree,
# never to /repo) and appends the verdict to seeded/<name>/meta.json under "rechecks".
set -u
export GOFLAGS=-mod=mod GOPROXY=off GOSUMDB=off GOTOOLCHAIN=local
N=$1; shift
D=/verif/seeded/$N
PROP=${N%%-*}
CHECKS=${*:-$PROP}
WT=${RECHECK_WT:-/tmp/recheck-$$}
made=0
if [ ! -d $WT ]; then git -C /repo worktree add --detach $WT HEAD >/dev/null 2>&1; made=1; fi
git -C $WT checkout -q -- . ; git -C $WT checkout -q --detach $(git -C /repo rev-parse HEAD) 2>/dev/null
if ! git -C $WT apply --check $D/patch.diff 2>/dev/null; then
  res="patch-does-not-apply"
else
  git -C $WT apply $D/patch.diff
  res=""
  for c in $CHECKS; do
    VERIF_REPO=$WT /verif/vcheck $c --tier ${RECHECK_TIER:-quick} --noevidence > $D/recheck_$c.log 2>&1; rc=$?
    v=$(grep -c "^VIOLATION" $D/recheck_$c.log)
    cls=$(grep -o "class=[a-z_-]*" $D/recheck_$c.log | sort -u | tr '\n' ' ')
    res="$res $c:rc=$rc:violations=$v:$cls"
  done
  git -C $WT checkout -q -- .
fi
[ $made = 1 ] && git -C /repo worktree remove --force $WT
python3 - <<PY
import json,subprocess
p="$D/meta.json"
try: m=json.load(open(p))
except Exception: m={"property":"$PROP","name":"$N"}
head=subprocess.run(["git","-C","/verif","rev-parse","--short","HEAD"],capture_output=True,text=True).stdout.strip()
m.setdefault("rechecks",[]).append({"verif_commit":head,"result":"$res".split()})
json.dump(m,open(p,"w"),indent=1)
print("$N", "$res")
PY
