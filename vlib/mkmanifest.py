#!/usr/bin/env python3
"""Regenerates MANIFEST.json from vlib/plans.py (kept in git; run after editing plans)."""
import json, os, sys
sys.path.insert(0, os.path.dirname(os.path.abspath(__file__)))
import plans as P

TEXT = P.MANIFEST_TEXT
checks = []
for pid in sorted(P.PLANS):
    t = TEXT[pid]
    checks.append(dict(
        property_id=pid,
        quick_cmd="./vcheck %s --tier quick" % pid,
        thorough_cmd="./vcheck %s --tier thorough" % pid,
        evidence_file="/verif/evidence/%s.json" % pid,
        replay_cmd_template="./vcheck replay {path}",
        engine="detsim",
        level_claimed=dict(category=P.PLANS[pid]["level"], text=t["text"], design_ref=t["ref"]),
        level_note=t["note"],
        technique=t["technique"],
    ))
na = [dict(property_id=k, reason=v) for k, v in sorted(P.NOT_APPLICABLE.items()) if k not in P.PLANS]
m = dict(
    version=1,
    setup_cmd="./vcheck build",
    hooks=dict(
        guard="verif",
        enable="no hooks are committed to /repo: every check generates the seams (simnet/simos/simrt yield points) from /repo's current working tree with tools/simrewrite and mounts them with go test -overlay/-modfile (DESIGN.md 2.2); the tag 'verif' is reserved and unused",
        baseline_off_cmd="cd /repo && go build ./... && go test -vet=off -count=1 -timeout 25m ./...",
        source_commits=[],
        add_only=True,
    ),
    engines=[dict(name="detsim", path="/verif/vcheck", serves_properties=sorted(P.PLANS),
                  kind_free_text="deterministic simulation with fault injection: real nsq daemons in one Go 1.26.8 testing/synctest bubble over an in-memory network, seeded runtime (select/timer/map order), seeded yield points before every synchronisation operation, seeded operation/fault generation, reference-model oracles, ddmin minimisation, replay files")],
    checks=checks,
    notes="Replay: ./vcheck replay <file>. Determinism self-test: ./vcheck selftest. Known findings and fixed defects: /verif/known_findings.json. See DESIGN.md.",
    not_applicable=na,
)
json.dump(m, open(os.path.join(os.path.dirname(os.path.dirname(os.path.abspath(__file__))), "MANIFEST.json"), "w"), indent=1)
print("wrote MANIFEST.json with", len(checks), "checks,", len(na), "not claimed")
