// Package simsignal replaces os/signal.Notify for the utility apps: real
// signals cannot be delivered to channels that live in a synctest bubble.
package simsignal

import (
	"os"
	"os/signal"
	"sync"
)

type reg struct {
	c    chan<- os.Signal
	sigs []os.Signal
}

var (
	mu     sync.Mutex
	active bool
	regs   []reg
)

// Activate switches to simulated delivery and forgets old registrations.
func Activate(on bool) { mu.Lock(); active = on; regs = nil; mu.Unlock() }

func Notify(c chan<- os.Signal, sig ...os.Signal) {
	mu.Lock()
	if !active {
		mu.Unlock()
		signal.Notify(c, sig...)
		return
	}
	regs = append(regs, reg{c, sig})
	mu.Unlock()
}

// Deliver sends sig to every channel registered for it (never blocks, like
// the real thing). It returns the number of channels that took it.
func Deliver(sig os.Signal) int {
	mu.Lock()
	rs := append([]reg(nil), regs...)
	mu.Unlock()
	n := 0
	for _, r := range rs {
		want := len(r.sigs) == 0
		for _, s := range r.sigs {
			if s == sig {
				want = true
			}
		}
		if !want {
			continue
		}
		select {
		case r.c <- sig:
			n++
		default:
		}
	}
	return n
}

// Mark returns the number of registrations so far; together with DeliverRange
// it addresses the registrations of one simulated process.
func Mark() int { mu.Lock(); defer mu.Unlock(); return len(regs) }

// DeliverRange is Deliver restricted to registrations [from, to).
func DeliverRange(from, to int, sig os.Signal) int {
	mu.Lock()
	if to > len(regs) {
		to = len(regs)
	}
	var rs []reg
	if from < to {
		rs = append(rs, regs[from:to]...)
	}
	mu.Unlock()
	n := 0
	for _, r := range rs {
		want := len(r.sigs) == 0
		for _, s := range r.sigs {
			if s == sig {
				want = true
			}
		}
		if !want {
			continue
		}
		select {
		case r.c <- sig:
			n++
		default:
		}
	}
	return n
}
