// Package simos wraps the file-system calls of nsqd, go-diskqueue and
// nsq_to_file. With no hook installed every function forwards to package os.
// With a hook installed the driver sees every mutating call before it happens
// (and may fail it, shorten a write, or take a crash snapshot of the directory)
// and after it succeeded.
package simos

import (
	"io"
	"io/fs"
	"log"
	"os"
	"runtime"
	"sync"
)

// Event describes one mutating file-system call.
type Event struct {
	Op    string // openfile, write, sync, close, rename, remove, link, mkdirall, truncate
	Path  string
	Path2 string // rename/link destination
	Flag  int    // openfile flags
	Data  []byte // write payload
	// Set by the Before hook to shorten a write: only Data[:Short] is written
	// and Err (or io.ErrShortWrite) is returned.
	Short int
	Size  int64 // truncate size
}

// Hooks is installed by the driver.
type Hooks struct {
	// Before may return an error to inject; the call is then not performed
	// (except for a shortened write, which performs the partial write first).
	Before func(ev *Event) error
	After  func(ev *Event)
	// Exit is called by Exit(code) in simulation; it must not return normally
	// to the caller (the wrapper calls runtime.Goexit afterwards).
	Exit func(code int)
}

var (
	mu  sync.Mutex
	cur *Hooks
)

func Install(h *Hooks) { mu.Lock(); cur = h; mu.Unlock() }
func get() *Hooks     { mu.Lock(); h := cur; mu.Unlock(); return h }

func before(ev *Event) error {
	if h := get(); h != nil && h.Before != nil {
		return h.Before(ev)
	}
	return nil
}
func after(ev *Event) {
	if h := get(); h != nil && h.After != nil {
		h.After(ev)
	}
}

// File stands in for os.File in rewritten code.
type File struct {
	*os.File
	path string
}

func wrap(f *os.File, err error) func(name string) (*File, error) {
	return func(name string) (*File, error) {
		if err != nil {
			return nil, err
		}
		return &File{File: f, path: name}, nil
	}
}

func OpenFile(name string, flag int, perm os.FileMode) (*File, error) {
	mutating := flag&(os.O_CREATE|os.O_TRUNC) != 0
	ev := &Event{Op: "openfile", Path: name, Flag: flag}
	if mutating {
		if err := before(ev); err != nil {
			return nil, &os.PathError{Op: "open", Path: name, Err: err}
		}
	}
	f, err := wrap(os.OpenFile(name, flag, perm))(name)
	if err == nil && mutating {
		after(ev)
	}
	return f, err
}

func Open(name string) (*File, error) { return wrap(os.Open(name))(name) }

func Create(name string) (*File, error) {
	return OpenFile(name, os.O_RDWR|os.O_CREATE|os.O_TRUNC, 0666)
}

// Yield, if set, is called at the start of every write and sync: they are
// system calls, and other goroutines run while one is in progress (two
// goroutines appending to one file interleave at write granularity).
var Yield func(site string)

func (f *File) Write(b []byte) (int, error) {
	if y := Yield; y != nil {
		y("simos.File.Write")
	}
	ev := &Event{Op: "write", Path: f.path, Data: b, Short: -1}
	if err := before(ev); err != nil {
		n := 0
		if ev.Short > 0 && ev.Short <= len(b) {
			n, _ = f.File.Write(b[:ev.Short])
		}
		return n, &os.PathError{Op: "write", Path: f.path, Err: err}
	}
	n, err := f.File.Write(b)
	if err == nil {
		after(ev)
	}
	return n, err
}

func (f *File) WriteString(s string) (int, error) { return f.Write([]byte(s)) }

func (f *File) Sync() error {
	if y := Yield; y != nil {
		y("simos.File.Sync")
	}
	ev := &Event{Op: "sync", Path: f.path}
	if err := before(ev); err != nil {
		return &os.PathError{Op: "sync", Path: f.path, Err: err}
	}
	err := f.File.Sync()
	if err == nil {
		after(ev)
	}
	return err
}

func (f *File) Close() error {
	ev := &Event{Op: "close", Path: f.path}
	before(ev) // close errors are not injected
	err := f.File.Close()
	if err == nil {
		after(ev)
	}
	return err
}

func (f *File) Truncate(size int64) error {
	ev := &Event{Op: "truncate", Path: f.path, Size: size}
	if err := before(ev); err != nil {
		return &os.PathError{Op: "truncate", Path: f.path, Err: err}
	}
	err := f.File.Truncate(size)
	if err == nil {
		after(ev)
	}
	return err
}

func (f *File) Name() string { return f.path }

func Rename(oldpath, newpath string) error {
	ev := &Event{Op: "rename", Path: oldpath, Path2: newpath}
	if err := before(ev); err != nil {
		return &os.LinkError{Op: "rename", Old: oldpath, New: newpath, Err: err}
	}
	err := os.Rename(oldpath, newpath)
	if err == nil {
		after(ev)
	}
	return err
}

func Link(oldname, newname string) error {
	ev := &Event{Op: "link", Path: oldname, Path2: newname}
	if err := before(ev); err != nil {
		return &os.LinkError{Op: "link", Old: oldname, New: newname, Err: err}
	}
	err := os.Link(oldname, newname)
	if err == nil {
		after(ev)
	}
	return err
}

func Remove(name string) error {
	ev := &Event{Op: "remove", Path: name}
	if err := before(ev); err != nil {
		return &os.PathError{Op: "remove", Path: name, Err: err}
	}
	err := os.Remove(name)
	if err == nil {
		after(ev)
	}
	return err
}

func MkdirAll(path string, perm os.FileMode) error {
	ev := &Event{Op: "mkdirall", Path: path}
	if err := before(ev); err != nil {
		return &os.PathError{Op: "mkdir", Path: path, Err: err}
	}
	err := os.MkdirAll(path, perm)
	if err == nil {
		after(ev)
	}
	return err
}

func ReadFile(name string) ([]byte, error)  { return os.ReadFile(name) }
func Stat(name string) (fs.FileInfo, error) { return os.Stat(name) }

// Exit replaces os.Exit in rewritten application code.
func Exit(code int) {
	h := get()
	if h == nil || h.Exit == nil {
		os.Exit(code)
	}
	h.Exit(code)
	runtime.Goexit()
}

// Fatal / Fatalf replace log.Fatal* in the applications' main packages
// (log.Fatal calls the real os.Exit, which would end the simulation process).
func Fatal(v ...interface{}) {
	log.Print(v...)
	Exit(1)
}

func Fatalf(format string, v ...interface{}) {
	log.Printf(format, v...)
	Exit(1)
}

// Stdin replaces os.Stdin in to_nsq; the driver may point it at a generated stream.
var Stdin io.Reader = os.Stdin
