// Package simclock is the clock of nsqd's id generator only (guid.go): the
// driver can step it backwards and forwards relative to the bubble's clock,
// and it can drift forward by itself between any two readings (on a real
// machine time passes between two instructions of two publishers; in the
// simulation the bubble's clock stands still while anything is runnable).
package simclock

import (
	"sync/atomic"
	"time"
)

var (
	offset     int64
	driftN     uint64 // 0 = no drift; otherwise one reading in driftN moves the clock one generator tick ahead
	driftState uint64
	Drifted    uint64 // number of ticks added by drift (a reach probe)
)

// SetOffset sets the generator clock's offset from time.Now().
func SetOffset(d time.Duration) { atomic.StoreInt64(&offset, int64(d)) }

// SetDrift enables (n > 0) or disables (n == 0) the seeded forward drift.
func SetDrift(seed uint64, n uint64) {
	atomic.StoreUint64(&driftState, seed)
	atomic.StoreUint64(&driftN, n)
}

func mix(z uint64) uint64 {
	z = (z ^ (z >> 30)) * 0xbf58476d1ce4e5b9
	z = (z ^ (z >> 27)) * 0x94d049bb133111eb
	return z ^ (z >> 31)
}

func Now() time.Time {
	if n := atomic.LoadUint64(&driftN); n > 0 {
		s := atomic.AddUint64(&driftState, 0x9e3779b97f4a7c15)
		if mix(s)%n == 0 {
			atomic.AddInt64(&offset, 1<<20) // one generator tick
			atomic.AddUint64(&Drifted, 1)
		}
	}
	return time.Now().Add(time.Duration(atomic.LoadInt64(&offset)))
}
