// Package simclock is the clock of nsqd's id generator only (guid.go): the
// driver can step it backwards and forwards relative to the bubble's clock.
package simclock

import (
	"sync/atomic"
	"time"
)

var offset int64

// SetOffset sets the generator clock's offset from time.Now().
func SetOffset(d time.Duration) { atomic.StoreInt64(&offset, int64(d)) }

func Now() time.Time {
	return time.Now().Add(time.Duration(atomic.LoadInt64(&offset)))
}
