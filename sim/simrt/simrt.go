// Package simrt holds the simulation's scheduling hook. The AST rewriter
// inserts simrt.Y("<pkg>.<func>#<ordinal>") in front of every statement of nsq
// code that performs a synchronisation operation. With no scheduler installed
// Y is a single load and compare.
//
// Because the simulation runs on one P without time-sliced preemption, the
// order in which goroutines reach their synchronisation operations changes
// only at Y (and at blocking operations). Y never parks: it either returns or
// calls runtime.Gosched a few times, so it is safe while locks are held.
package simrt

import (
	"runtime"
	"strings"
	"sync/atomic"
	"time"
)

// Sched is one run's yield policy. All fields are set by the driver before
// the run; the PRNG state is re-seeded by the driver per step.
type Sched struct {
	// Prob is the probability (x / 65536) of yielding at a site.
	Prob uint32
	// Prefixes restricts random yields to sites whose name starts with one
	// of these (empty = all sites).
	Prefixes []string
	state    uint64

	// Long delays (PCT-like, depth 1): with probability LongProb / 65536 per
	// site visit - at most once per step - the goroutine is held back for
	// LongSpin yields, i.e. every other goroutine can run through many of its own
	// synchronisation points (a whole request, a publish and its delivery) before
	// this one executes its next one. Ordinary yields only let the others advance
	// a point or two, which never opens a window that needs several things to
	// happen inside it.
	LongProb uint32
	LongSpin int
	longUsed bool
	Longs    uint64

	// Steering rules: a goroutine arriving at Hold yields until some goroutine
	// has passed Until (count increased since arrival) or MaxSpin yields.
	Rules []*Rule

	// statistics
	Calls, Yields, Steered uint64
	hash                    uint64
	Sites                   map[string]uint64 // per-site hit count (only if Count)
	Count                   bool
	passed                  map[string]uint64
	// busy-wait detection (see Y)
	recent [4]string
	rpos   int
	streak int
	streakT time.Time
	Spins  uint64
}

type Rule struct {
	Hold    string // site name (exact) or prefix ending in '*'
	Until   string // site name (exact) or prefix ending in '*'
	MaxSpin int
	Nth     int // apply on the Nth arrival (1-based; 0 = first)
	OneShot bool
	arrived int
	Fired   int // times the rule held a goroutine
	Met     int // times Until was observed while holding
}

var cur atomic.Value // *Sched

var _ = time.Millisecond

func Install(s *Sched) {
	if s != nil {
		if s.passed == nil {
			s.passed = map[string]uint64{}
		}
		if s.Count && s.Sites == nil {
			s.Sites = map[string]uint64{}
		}
	}
	cur.Store(s)
}

func Cur() *Sched { s, _ := cur.Load().(*Sched); return s }

// Reseed sets the yield stream position (driver: once per step).
//
//go:norace
func (s *Sched) Reseed(v uint64) { s.state = v; s.longUsed = false }

//go:norace
func (s *Sched) next() uint64 {
	s.state += 0x9e3779b97f4a7c15
	z := s.state
	z = (z ^ (z >> 30)) * 0xbf58476d1ce4e5b9
	z = (z ^ (z >> 27)) * 0x94d049bb133111eb
	return z ^ (z >> 31)
}

// Fingerprint is a hash of the sequence of sites executed so far.
func (s *Sched) Fingerprint() uint64 { return s.hash }

func match(pat, site string) bool {
	if n := len(pat); n > 0 && pat[n-1] == '*' {
		return strings.HasPrefix(site, pat[:n-1])
	}
	return pat == site
}

// Y is the yield point.
//
// The scheduler state is deliberately unsynchronised (one P); in the race
// build it must not be instrumented, or every pair of call sites becomes a report.
//
//go:norace
func Y(site string) {
	s, _ := cur.Load().(*Sched)
	if s == nil {
		return
	}
	s.Calls++
	// FNV-style running hash of the site sequence = schedule fingerprint.
	h := s.hash
	for i := 0; i < len(site); i++ {
		h = (h ^ uint64(site[i])) * 1099511628211
	}
	s.hash = (h ^ 0xff) * 1099511628211
	if s.Count {
		s.Sites[site]++
	}
	if len(s.Rules) > 0 {
		for _, r := range s.Rules {
			if r.Until != "" && match(r.Until, site) {
				s.passed[r.Until]++
			}
		}
		for _, r := range s.Rules {
			if !match(r.Hold, site) {
				continue
			}
			r.arrived++
			if r.Nth > 0 && r.arrived != r.Nth {
				continue
			}
			if r.OneShot && r.Fired > 0 {
				continue
			}
			r.Fired++
			s.Steered++
			start := s.passed[r.Until]
			for i := 0; i < r.MaxSpin; i++ {
				runtime.VerifYield()
				if Cur() != s {
					return
				}
				if r.Until != "" && s.passed[r.Until] != start {
					r.Met++
					break
				}
			}
			return
		}
	}
	// Nothing preempts in the simulation, so a goroutine that busy-waits
	// through yield sites (e.g. a select loop on an already closed channel
	// waiting for another goroutine to finish) would spin forever on the one P.
	// Real Go preempts such loops; here every 256th site visit lets the others run.
	if s.Calls&255 == 0 {
		runtime.VerifYield()
	}
	// A goroutine that busy-waits for something that needs simulated TIME to
	// pass (a timer, a deadline) would livelock the discrete-event clock: time
	// only advances when nothing is runnable. Hundreds of thousands of
	// consecutive visits to the same few sites with the clock standing still
	// are such a spin (a loop that drains a queue of some thousand entries is
	// not, and must not be put to sleep: it may hold a lock); the spin is slowed
	// down to one pass per simulated millisecond, as if it ran at finite speed.
	hit := false
	for i := range s.recent {
		if s.recent[i] == site {
			hit = true
			break
		}
	}
	if hit {
		s.streak++
		if s.streak > 300000 {
			if now := time.Now(); !now.Equal(s.streakT) {
				// simulated time moves (the loop sleeps by itself, e.g. the id
				// generator waiting for its clock): not a livelock
				s.streak, s.streakT = 0, now
			} else {
				s.streak -= 16
				s.Spins++
				time.Sleep(time.Millisecond)
				s.streakT = time.Now()
			}
		}
	} else {
		s.recent[s.rpos&3] = site
		s.rpos++
		if s.streak > 0 || s.streakT.IsZero() {
			s.streakT = time.Now()
		}
		s.streak = 0
	}
	if s.LongProb > 0 && !s.longUsed {
		if v := s.next(); uint32(v&0xffff) < s.LongProb {
			s.longUsed = true
			s.Longs++
			for i := 0; i < s.LongSpin; i++ {
				runtime.VerifYield()
				if Cur() != s {
					return
				}
			}
			return
		}
	}
	if s.Prob == 0 {
		return
	}
	if len(s.Prefixes) > 0 {
		ok := false
		for _, p := range s.Prefixes {
			if strings.HasPrefix(site, p) {
				ok = true
				break
			}
		}
		if !ok {
			return
		}
	}
	v := s.next()
	if uint32(v&0xffff) >= s.Prob {
		return
	}
	s.Yields++
	k := 1 + int((v>>16)%3)
	for i := 0; i < k; i++ {
		runtime.VerifYield()
	}
}
