// Package simnet is an in-memory TCP used by the simulation instead of the
// operating system's sockets. With no world installed (Cur() == nil) every
// entry point forwards to package net, so code linked against simnet behaves
// as shipped.
//
// Inside a world: listeners and connections are plain Go objects guarded by
// mutexes and condition variables (durably blocking under testing/synctest),
// deadlines use the (fake) clock, addresses are *net.TCPAddr, and every
// connection carries fault hooks (reset, stall, short reads, latency, taps)
// that the driver operates from generated operations.
package simnet

import (
	"context"
	"crypto/tls"
	"errors"
	"fmt"
	"io"
	"net"
	"os"
	"strconv"
	"strings"
	"sync"
	"syscall"
	"time"
)

// World is one simulated network.
type World struct {
	mu        sync.Mutex
	listeners map[string]*Listener
	nextPort  int
	nextEph   int
	conns     []*Conn
	refuse    map[string]int // addr -> RefuseMode
	// OnConnect is called (outside locks) for every established connection
	// with the dialing side's endpoint; harness uses it to install taps.
	OnConnect func(client *Conn, server *Conn)
	// ReadChunk, if set, bounds the number of bytes a single Read returns for
	// connections accepted by daemons (server side reads): it is called with
	// the available byte count and returns how many to hand out (>=1).
	ReadChunk func(c *Conn, avail int) int
	// blockedSrc: source IPs whose dials are refused (a process that was killed
	// must not come back through its library's reconnect loop)
	blockedSrc map[string]bool
	addrPool   []net.TCPAddr
	addrNext   int
	unixPorts  map[string]int
	unixNext   int
	// Yield, if set, is called at the start of every Write on an endpoint
	// accepted by a daemon: a write is a system call, and other goroutines
	// run while it is in progress.
	Yield func(site string)
	// BufSize is the default send buffer bound per direction.
	BufSize int
	Stats   Stats
	seq     uint64
}

type Stats struct {
	Dials, Accepts, Refused, Blackholed, Resets, Stalls, ShortReads, BytesWritten int64
}

const (
	RefuseNone = iota
	RefuseRST          // connect fails at once with ECONNREFUSED
	RefuseBlackhole    // connect never completes (until the dialer's timeout)
	RefuseAcceptClose  // connect succeeds, then the peer closes at once
)

var (
	curMu sync.Mutex
	cur   *World
)

// Install makes w the active world (nil removes it).
func Install(w *World) {
	curMu.Lock()
	cur = w
	curMu.Unlock()
}

func Cur() *World {
	curMu.Lock()
	w := cur
	curMu.Unlock()
	return w
}

func NewWorld() *World {
	return &World{
		listeners: map[string]*Listener{},
		refuse:    map[string]int{},
		nextPort:  20000,
		nextEph:   40000,
		BufSize:   1 << 20,
		// The daemons keep their connections in maps keyed by net.Addr, i.e. by
		// the POINTER to the address: iteration order then depends on heap
		// addresses, and those on every allocation before (e.g. on how many
		// digits the memory statistics in a /stats reply have). Addresses come
		// from one block allocated when the world is created instead.
		addrPool: addrArena[:],
	}
}

// addrArena is static (fixed address in the binary): a heap block would still
// move with whatever was allocated before the world was created.
var addrArena [16384]net.TCPAddr

func (w *World) newAddr(ip net.IP, port int) *net.TCPAddr {
	w.mu.Lock()
	defer w.mu.Unlock()
	if w.addrNext < len(w.addrPool) {
		a := &w.addrPool[w.addrNext]
		w.addrNext++
		a.IP, a.Port = ip, port
		return a
	}
	return &net.TCPAddr{IP: ip, Port: port}
}

// NextSeq returns a world-global event sequence number.
func (w *World) NextSeq() uint64 {
	w.mu.Lock()
	w.seq++
	s := w.seq
	w.mu.Unlock()
	return s
}

// SetRefuse installs a connect-time fault on a listening address.
func (w *World) SetRefuse(addr string, mode int) {
	w.mu.Lock()
	if mode == RefuseNone {
		delete(w.refuse, addr)
	} else {
		w.refuse[addr] = mode
	}
	w.mu.Unlock()
}

// Conns returns all connections ever established (client endpoints).
func (w *World) Conns() []*Conn {
	w.mu.Lock()
	defer w.mu.Unlock()
	return append([]*Conn(nil), w.conns...)
}

type timeoutError struct{ op string }

func (e *timeoutError) Error() string   { return e.op + ": i/o timeout" }
func (e *timeoutError) Timeout() bool   { return true }
func (e *timeoutError) Temporary() bool { return true }
func (e *timeoutError) Is(err error) bool {
	return err == os.ErrDeadlineExceeded || err == context.DeadlineExceeded
}

func opErr(op string, addr net.Addr, err error) error {
	return &net.OpError{Op: op, Net: "tcp", Addr: addr, Err: err}
}

func parseAddr(addr string) (*net.TCPAddr, error) {
	host, portS, err := net.SplitHostPort(addr)
	if err != nil {
		return nil, err
	}
	port, err := strconv.Atoi(portS)
	if err != nil {
		return nil, err
	}
	ip := net.ParseIP(host)
	if host == "" || host == "localhost" {
		ip = net.IPv4(127, 0, 0, 1)
	}
	if ip == nil {
		// any name resolves to loopback in the simulation
		ip = net.IPv4(127, 0, 0, 1)
	}
	if ip.IsUnspecified() {
		ip = net.IPv4(127, 0, 0, 1)
	}
	return &net.TCPAddr{IP: ip, Port: port}, nil
}

func key(a *net.TCPAddr) string { return strconv.Itoa(a.Port) }

// ---------------------------------------------------------------- unix-domain sockets
//
// A listen or dial address that contains a '/' is a unix-domain socket path (that is how nsqd tells
// them apart). Inside, such a socket is an ordinary simulated stream on a port of its own; towards the
// code under test its addresses are *net.UnixAddr: the listener's is the path, a client's is the
// unnamed address "@" - the same text for every client, as on a real system.

var unixArena [4096]net.UnixAddr

func isUnixPath(address string) bool { return strings.Contains(address, "/") }

// unixPort maps a socket path to the port it occupies inside the simulation (w.mu held).
func (w *World) unixPort(path string) int {
	if w.unixPorts == nil {
		w.unixPorts = map[string]int{}
	}
	p, ok := w.unixPorts[path]
	if !ok {
		p = 60000 + len(w.unixPorts)
		w.unixPorts[path] = p
	}
	return p
}

func (w *World) newUnixAddr(name string) *net.UnixAddr {
	w.mu.Lock()
	defer w.mu.Unlock()
	if w.unixNext < len(unixArena) {
		a := &unixArena[w.unixNext]
		w.unixNext++
		a.Name, a.Net = name, "unix"
		return a
	}
	return &net.UnixAddr{Name: name, Net: "unix"}
}

// ---------------------------------------------------------------- listener

type Listener struct {
	w      *World
	unix   *net.UnixAddr // non-nil: a unix-domain socket listener
	addr   *net.TCPAddr
	mu     sync.Mutex
	cond   *sync.Cond
	queue  []*Conn
	closed bool
}

func Listen(network, address string) (net.Listener, error) {
	w := Cur()
	if w == nil {
		return net.Listen(network, address)
	}
	return w.Listen(network, address)
}

func TLSListen(network, address string, cfg *tls.Config) (net.Listener, error) {
	w := Cur()
	if w == nil {
		return tls.Listen(network, address, cfg)
	}
	l, err := w.Listen(network, address)
	if err != nil {
		return nil, err
	}
	return tls.NewListener(l, cfg), nil
}

func (w *World) Listen(network, address string) (*Listener, error) {
	var ux *net.UnixAddr
	if isUnixPath(address) {
		ux = w.newUnixAddr(address)
		w.mu.Lock()
		address = "127.0.0.1:" + strconv.Itoa(w.unixPort(address))
		w.mu.Unlock()
	}
	a, err := parseAddr(address)
	if err != nil {
		return nil, opErr("listen", nil, err)
	}
	w.mu.Lock()
	defer w.mu.Unlock()
	if a.Port == 0 {
		for {
			w.nextPort++
			if _, used := w.listeners[strconv.Itoa(w.nextPort)]; !used {
				break
			}
		}
		a.Port = w.nextPort
	}
	if _, used := w.listeners[key(a)]; used {
		return nil, opErr("listen", a, syscall.EADDRINUSE)
	}
	l := &Listener{w: w, addr: a, unix: ux}
	l.cond = sync.NewCond(&l.mu)
	w.listeners[key(a)] = l
	return l, nil
}

func (l *Listener) Accept() (net.Conn, error) {
	l.mu.Lock()
	defer l.mu.Unlock()
	for len(l.queue) == 0 && !l.closed {
		l.cond.Wait()
	}
	if l.closed {
		return nil, opErr("accept", l.addr, net.ErrClosed)
	}
	c := l.queue[0]
	l.queue = l.queue[1:]
	l.w.mu.Lock()
	l.w.Stats.Accepts++
	l.w.mu.Unlock()
	return c, nil
}

func (l *Listener) Close() error {
	l.mu.Lock()
	if l.closed {
		l.mu.Unlock()
		return opErr("close", l.addr, net.ErrClosed)
	}
	l.closed = true
	pending := l.queue
	l.queue = nil
	l.cond.Broadcast()
	l.mu.Unlock()
	l.w.mu.Lock()
	if l.w.listeners[key(l.addr)] == l {
		delete(l.w.listeners, key(l.addr))
	}
	l.w.mu.Unlock()
	for _, c := range pending {
		c.Reset()
	}
	return nil
}

func (l *Listener) Addr() net.Addr {
	if l.unix != nil {
		return l.unix
	}
	return l.addr
}

// ---------------------------------------------------------------- pipes

// half is one direction of a connection.
type half struct {
	mu       sync.Mutex
	cond     *sync.Cond
	buf      []byte
	limit    int  // max buffered bytes before Write blocks (0 = unbounded)
	wclosed  bool // writer closed: reader gets EOF after draining
	rclosed  bool // reader closed: writer gets EPIPE
	reset    bool
	stalled  bool // reader sees nothing while set
	rdl, wdl time.Time
	rtimer   *time.Timer
	wtimer   *time.Timer
	total    int64 // bytes ever written
	cutAt    int64 // if >0: reset the connection when total reaches cutAt
	tap      func(b []byte)
	owner    *Conn // the writing endpoint
}

func newHalf(limit int) *half {
	h := &half{limit: limit}
	h.cond = sync.NewCond(&h.mu)
	return h
}

func (h *half) wake() {
	h.mu.Lock()
	h.cond.Broadcast()
	h.mu.Unlock()
}

// Conn is one endpoint of a simulated TCP connection. It has the method set
// code expects from *net.TCPConn.
type Conn struct {
	w        *World
	in, out  *half
	local    *net.TCPAddr
	remote   *net.TCPAddr
	localUnix, remoteUnix *net.UnixAddr // set on the endpoints of a unix-domain socket connection
	peer     *Conn
	isServer bool
	closed   bool
	cmu      sync.Mutex
	ID       int
	// ShortReads enables World.ReadChunk for this endpoint.
	ShortReads bool
	Tag        string
}

// TCPConn is the name rewritten code uses for *net.TCPConn.
type TCPConn = Conn

func (c *Conn) Peer() *Conn        { return c.peer }
func (c *Conn) IsServerSide() bool { return c.isServer }

func (c *Conn) Read(p []byte) (int, error) {
	h := c.in
	h.mu.Lock()
	defer h.mu.Unlock()
	if len(p) == 0 {
		return 0, nil
	}
	for {
		if h.reset {
			return 0, opErr("read", c.remote, syscall.ECONNRESET)
		}
		if h.rclosed {
			return 0, opErr("read", c.local, net.ErrClosed)
		}
		if !h.rdl.IsZero() && !time.Now().Before(h.rdl) {
			return 0, opErr("read", c.remote, &timeoutError{"read"})
		}
		if len(h.buf) > 0 && !h.stalled {
			n := len(h.buf)
			if n > len(p) {
				n = len(p)
			}
			if c.ShortReads && c.w != nil && c.w.ReadChunk != nil && n > 1 {
				k := c.w.ReadChunk(c, n)
				if k >= 1 && k < n {
					n = k
					c.w.Stats.ShortReads++
				}
			}
			copy(p, h.buf[:n])
			h.buf = h.buf[n:]
			if len(h.buf) == 0 {
				h.buf = nil
			}
			h.cond.Broadcast() // writers waiting for space
			return n, nil
		}
		if h.wclosed && !h.stalled {
			return 0, io.EOF
		}
		h.armRead()
		h.cond.Wait()
	}
}

func (h *half) armRead() {
	if h.rtimer != nil {
		h.rtimer.Stop()
		h.rtimer = nil
	}
	if !h.rdl.IsZero() {
		d := time.Until(h.rdl)
		h.rtimer = time.AfterFunc(d, h.wake)
	}
}

func (h *half) armWrite() {
	if h.wtimer != nil {
		h.wtimer.Stop()
		h.wtimer = nil
	}
	if !h.wdl.IsZero() {
		d := time.Until(h.wdl)
		h.wtimer = time.AfterFunc(d, h.wake)
	}
}

func (c *Conn) Write(p []byte) (int, error) {
	if c.isServer && c.w != nil && c.w.Yield != nil {
		c.w.Yield("simnet.Conn.Write")
	}
	h := c.out
	h.mu.Lock()
	written := 0
	for {
		if h.reset {
			h.mu.Unlock()
			return written, opErr("write", c.remote, syscall.ECONNRESET)
		}
		if h.wclosed {
			h.mu.Unlock()
			return written, opErr("write", c.local, net.ErrClosed)
		}
		if h.rclosed {
			h.mu.Unlock()
			return written, opErr("write", c.remote, syscall.EPIPE)
		}
		if !h.wdl.IsZero() && !time.Now().Before(h.wdl) {
			h.mu.Unlock()
			return written, opErr("write", c.remote, &timeoutError{"write"})
		}
		if len(p) == 0 {
			h.mu.Unlock()
			return written, nil
		}
		space := len(p)
		if h.limit > 0 {
			space = h.limit - len(h.buf)
		}
		if space > 0 {
			n := len(p)
			if n > space {
				n = space
			}
			cut := false
			if h.cutAt > 0 && h.total+int64(n) >= h.cutAt {
				n = int(h.cutAt - h.total)
				cut = true
			}
			if h.tap != nil && n > 0 {
				h.tap(p[:n])
			}
			h.buf = append(h.buf, p[:n]...)
			h.total += int64(n)
			written += n
			p = p[n:]
			h.cond.Broadcast()
			if cut {
				h.cutAt = 0
				h.mu.Unlock()
				c.Reset()
				return written, opErr("write", c.remote, syscall.ECONNRESET)
			}
			continue
		}
		h.armWrite()
		h.cond.Wait()
	}
}

func (c *Conn) Close() error {
	c.cmu.Lock()
	if c.closed {
		c.cmu.Unlock()
		return opErr("close", c.local, net.ErrClosed)
	}
	c.closed = true
	c.cmu.Unlock()
	// writer side of out: EOF to peer once drained
	c.out.mu.Lock()
	c.out.wclosed = true
	c.out.cond.Broadcast()
	c.out.mu.Unlock()
	// reader side of in: local reads fail, peer writes get EPIPE; data
	// already buffered towards us is discarded.
	c.in.mu.Lock()
	c.in.rclosed = true
	c.in.buf = nil
	c.in.cond.Broadcast()
	c.in.mu.Unlock()
	return nil
}

func (c *Conn) CloseRead() error {
	c.in.mu.Lock()
	c.in.rclosed = true
	c.in.buf = nil
	c.in.cond.Broadcast()
	c.in.mu.Unlock()
	return nil
}

func (c *Conn) CloseWrite() error {
	c.out.mu.Lock()
	c.out.wclosed = true
	c.out.cond.Broadcast()
	c.out.mu.Unlock()
	return nil
}

// Reset kills the connection in both directions at once (RST): pending data
// is discarded, both sides' reads and writes fail with ECONNRESET.
func (c *Conn) Reset() {
	for _, h := range []*half{c.in, c.out} {
		h.mu.Lock()
		h.reset = true
		h.buf = nil
		h.cond.Broadcast()
		h.mu.Unlock()
	}
	if c.w != nil {
		c.w.mu.Lock()
		c.w.Stats.Resets++
		c.w.mu.Unlock()
	}
}

// IsDead reports whether the endpoint can no longer receive data (reset, or
// closed by either side with nothing left to read).
func (c *Conn) IsDead() bool {
	c.in.mu.Lock()
	defer c.in.mu.Unlock()
	return c.in.reset || c.in.rclosed || (c.in.wclosed && len(c.in.buf) == 0)
}

// StallIn makes data towards this endpoint invisible until healed.
func (c *Conn) StallIn(on bool) {
	c.in.mu.Lock()
	c.in.stalled = on
	c.in.cond.Broadcast()
	c.in.mu.Unlock()
	if on && c.w != nil {
		c.w.mu.Lock()
		c.w.Stats.Stalls++
		c.w.mu.Unlock()
	}
}

// StallOut makes data written by this endpoint invisible to the peer.
func (c *Conn) StallOut(on bool) { c.peer.StallIn(on) }

// CutAfterOut resets the connection once this endpoint has written n more bytes.
func (c *Conn) CutAfterOut(n int64) {
	c.out.mu.Lock()
	c.out.cutAt = c.out.total + n
	c.out.mu.Unlock()
}

// SetLimitOut bounds (0 = unbounded) this endpoint's send buffer.
func (c *Conn) SetLimitOut(n int) {
	c.out.mu.Lock()
	c.out.limit = n
	c.out.cond.Broadcast()
	c.out.mu.Unlock()
}

// TapOut calls f with every chunk this endpoint writes.
func (c *Conn) TapOut(f func(b []byte)) {
	c.out.mu.Lock()
	c.out.tap = f
	c.out.mu.Unlock()
}

// TapIn calls f with every chunk written towards this endpoint.
func (c *Conn) TapIn(f func(b []byte)) { c.peer.TapOut(f) }

// PendingIn is the number of bytes written towards this endpoint and not yet read.
func (c *Conn) PendingIn() int {
	c.in.mu.Lock()
	defer c.in.mu.Unlock()
	return len(c.in.buf)
}

func (c *Conn) LocalAddr() net.Addr {
	if c.localUnix != nil {
		return c.localUnix
	}
	return c.local
}

func (c *Conn) RemoteAddr() net.Addr {
	if c.remoteUnix != nil {
		return c.remoteUnix
	}
	return c.remote
}

func (c *Conn) SetDeadline(t time.Time) error {
	c.SetReadDeadline(t)
	c.SetWriteDeadline(t)
	return nil
}

func (c *Conn) SetReadDeadline(t time.Time) error {
	c.in.mu.Lock()
	c.in.rdl = t
	if c.in.rtimer != nil {
		c.in.rtimer.Stop()
		c.in.rtimer = nil
	}
	c.in.cond.Broadcast()
	c.in.mu.Unlock()
	return nil
}

func (c *Conn) SetWriteDeadline(t time.Time) error {
	c.out.mu.Lock()
	c.out.wdl = t
	if c.out.wtimer != nil {
		c.out.wtimer.Stop()
		c.out.wtimer = nil
	}
	c.out.cond.Broadcast()
	c.out.mu.Unlock()
	return nil
}

func (c *Conn) SetNoDelay(bool) error                { return nil }
func (c *Conn) SetKeepAlive(bool) error              { return nil }
func (c *Conn) SetKeepAlivePeriod(time.Duration) error { return nil }
func (c *Conn) SetLinger(int) error                  { return nil }
func (c *Conn) SetReadBuffer(int) error              { return nil }
func (c *Conn) SetWriteBuffer(int) error             { return nil }

// ---------------------------------------------------------------- dialing

// Dialer mirrors the fields of net.Dialer that nsq and go-nsq set.
type Dialer struct {
	Timeout       time.Duration
	Deadline      time.Time
	LocalAddr     net.Addr
	DualStack     bool
	FallbackDelay time.Duration
	KeepAlive     time.Duration
}

func (d *Dialer) real() *net.Dialer {
	return &net.Dialer{Timeout: d.Timeout, Deadline: d.Deadline, LocalAddr: d.LocalAddr,
		FallbackDelay: d.FallbackDelay, KeepAlive: d.KeepAlive}
}

func (d *Dialer) Dial(network, address string) (net.Conn, error) {
	return d.DialContext(context.Background(), network, address)
}

func (d *Dialer) DialContext(ctx context.Context, network, address string) (net.Conn, error) {
	w := Cur()
	if w == nil {
		return d.real().DialContext(ctx, network, address)
	}
	var srcIP net.IP
	if ta, ok := d.LocalAddr.(*net.TCPAddr); ok && ta != nil {
		srcIP = ta.IP
	}
	timeout := d.Timeout
	if !d.Deadline.IsZero() {
		if t := time.Until(d.Deadline); timeout == 0 || t < timeout {
			timeout = t
		}
	}
	c, err := w.dial(ctx, address, srcIP, timeout)
	if err != nil {
		return nil, err
	}
	// a connection dialled by code under test (nsqd to nsqlookupd or to an auth
	// server, nsqadmin to its upstreams, the applications' consumers and
	// producers): its reads are subject to TCP segmentation like everybody's
	c.ShortReads = true
	return c, nil
}

func Dial(network, address string) (net.Conn, error) {
	w := Cur()
	if w == nil {
		return net.Dial(network, address)
	}
	return (&Dialer{}).Dial(network, address)
}

func DialTimeout(network, address string, timeout time.Duration) (net.Conn, error) {
	w := Cur()
	if w == nil {
		return net.DialTimeout(network, address, timeout)
	}
	return (&Dialer{Timeout: timeout}).Dial(network, address)
}

// DialFrom is the harness entry point: connect from a chosen source IP.
// BlockSource refuses every later dial from ip and resets its established connections.
func (w *World) BlockSource(ip net.IP) {
	w.mu.Lock()
	if w.blockedSrc == nil {
		w.blockedSrc = map[string]bool{}
	}
	w.blockedSrc[ip.String()] = true
	conns := append([]*Conn(nil), w.conns...)
	w.mu.Unlock()
	for _, c := range conns {
		if ta, ok := c.LocalAddr().(*net.TCPAddr); ok && !c.isServer && ta.IP.Equal(ip) && !c.IsDead() {
			c.Reset()
		}
	}
}

func (w *World) DialFrom(srcIP net.IP, address string) (*Conn, error) {
	return w.dial(context.Background(), address, srcIP, 0)
}

func (w *World) dial(ctx context.Context, address string, srcIP net.IP, timeout time.Duration) (*Conn, error) {
	if isUnixPath(address) {
		w.mu.Lock()
		address = "127.0.0.1:" + strconv.Itoa(w.unixPort(address))
		w.mu.Unlock()
	}
	a, err := parseAddr(address)
	if err != nil {
		return nil, opErr("dial", nil, err)
	}
	if network := "tcp"; network != "tcp" {
		return nil, errors.New("simnet: unsupported network")
	}
	w.mu.Lock()
	w.Stats.Dials++
	l := w.listeners[key(a)]
	mode := w.refuse[key(a)]
	if mode == 0 {
		mode = w.refuse[address]
	}
	w.nextEph++
	eph := w.nextEph
	if srcIP != nil && w.blockedSrc[srcIP.String()] {
		w.Stats.Refused++
		w.mu.Unlock()
		return nil, opErr("dial", a, syscall.ECONNREFUSED)
	}
	w.mu.Unlock()

	if mode == RefuseBlackhole {
		w.mu.Lock()
		w.Stats.Blackholed++
		w.mu.Unlock()
		var tc <-chan time.Time
		if timeout > 0 {
			t := time.NewTimer(timeout)
			defer t.Stop()
			tc = t.C
		}
		select {
		case <-tc:
			return nil, opErr("dial", a, &timeoutError{"dial"})
		case <-ctx.Done():
			return nil, opErr("dial", a, ctx.Err())
		}
	}
	if l == nil || mode == RefuseRST {
		w.mu.Lock()
		w.Stats.Refused++
		w.mu.Unlock()
		return nil, opErr("dial", a, syscall.ECONNREFUSED)
	}
	if srcIP == nil {
		srcIP = net.IPv4(127, 0, 0, 1)
	}
	la := w.newAddr(srcIP, eph)
	c2s := newHalf(w.BufSize)
	s2c := newHalf(w.BufSize)
	cl := &Conn{w: w, in: s2c, out: c2s, local: la, remote: l.addr}
	sv := &Conn{w: w, in: c2s, out: s2c, local: l.addr, remote: la, isServer: true, ShortReads: true}
	cl.peer, sv.peer = sv, cl
	c2s.owner, s2c.owner = cl, sv
	if l.unix != nil {
		cl.remoteUnix, sv.localUnix = l.unix, l.unix
		cl.localUnix, sv.remoteUnix = w.newUnixAddr("@"), w.newUnixAddr("@")
	}
	w.mu.Lock()
	w.conns = append(w.conns, cl)
	cl.ID = len(w.conns)
	sv.ID = cl.ID
	hook := w.OnConnect
	w.mu.Unlock()
	if hook != nil {
		hook(cl, sv)
	}
	if mode == RefuseAcceptClose {
		sv.Close()
		return cl, nil
	}
	l.mu.Lock()
	if l.closed {
		l.mu.Unlock()
		return nil, opErr("dial", a, syscall.ECONNREFUSED)
	}
	l.queue = append(l.queue, sv)
	l.cond.Broadcast()
	l.mu.Unlock()
	return cl, nil
}

func (c *Conn) String() string {
	return fmt.Sprintf("conn#%d(%s->%s)", c.ID, c.local, c.remote)
}
