module verifsim

go 1.17
