module simrewrite

go 1.17
