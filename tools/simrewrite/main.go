// simrewrite produces simulation copies of Go source files. It applies only
// two kinds of edits (DESIGN.md §2.2): selector substitution (net/os/signal/
// time entry points -> the sim packages) and insertion of simrt.Y(...) yield
// points in front of statements that perform a synchronisation operation.
//
// usage: simrewrite -out DIR -strip PREFIX -rules net,os,yield[,...] [-pkgprefix P] dir...
// For every changed file it prints "<original path>\t<rewritten path>".
// Any construct it cannot handle aborts with exit status 2.
package main

import (
	"bytes"
	"flag"
	"fmt"
	"go/ast"
	"go/parser"
	"go/printer"
	"go/token"
	"os"
	"path/filepath"
	"sort"
	"strconv"
	"strings"
)

type subst struct{ pkg, sel, newPkg, newSel string }

var substRules = map[string][]subst{
	"net": {
		{"net", "Listen", "simnet", "Listen"},
		{"net", "Dial", "simnet", "Dial"},
		{"net", "DialTimeout", "simnet", "DialTimeout"},
		{"net", "Dialer", "simnet", "Dialer"},
		{"net", "TCPConn", "simnet", "TCPConn"},
		{"tls", "Listen", "simnet", "TLSListen"},
	},
	"os": {
		{"os", "OpenFile", "simos", "OpenFile"},
		{"os", "Create", "simos", "Create"},
		{"os", "Rename", "simos", "Rename"},
		{"os", "Remove", "simos", "Remove"},
		{"os", "Link", "simos", "Link"},
		{"os", "MkdirAll", "simos", "MkdirAll"},
		{"os", "File", "simos", "File"},
	},
	"exit":   {{"os", "Exit", "simos", "Exit"}},
	"fatal":  {{"log", "Fatal", "simos", "Fatal"}, {"log", "Fatalf", "simos", "Fatalf"}, {"log", "Fatalln", "simos", "Fatal"}},
	"stdin":  {{"os", "Stdin", "simos", "Stdin"}},
	"signal": {{"signal", "Notify", "simsignal", "Notify"}},
	"clock":  {{"time", "Now", "simclock", "Now"}}, // only applied to files named in -clockfiles
}

var simImports = map[string]string{
	"simnet":    "verifsim/simnet",
	"simos":     "verifsim/simos",
	"simsignal": "verifsim/simsignal",
	"simclock":  "verifsim/simclock",
	"simrt":     "verifsim/simrt",
}

var importPathOf = map[string]string{
	"net": "net", "tls": "crypto/tls", "os": "os", "signal": "os/signal", "time": "time", "log": "log",
}

func fatal(format string, a ...interface{}) {
	fmt.Fprintf(os.Stderr, "simrewrite: "+format+"\n", a...)
	os.Exit(2)
}

func main() {
	out := flag.String("out", "", "output directory")
	strip := flag.String("strip", "", "path prefix removed from input paths to form output paths")
	rules := flag.String("rules", "", "comma separated: net,os,exit,stdin,signal,yield")
	clockFiles := flag.String("clockfiles", "", "comma separated base names that get the clock rule")
	inplace := flag.Bool("inplace", false, "overwrite the input files (scratch copies of dependencies)")
	flag.Parse()
	if *out == "" && !*inplace {
		fatal("-out required")
	}
	rs := map[string]bool{}
	for _, r := range strings.Split(*rules, ",") {
		if r != "" {
			rs[r] = true
		}
	}
	clk := map[string]bool{}
	for _, f := range strings.Split(*clockFiles, ",") {
		if f != "" {
			clk[f] = true
		}
	}
	for _, dir := range flag.Args() {
		ents, err := os.ReadDir(dir)
		if err != nil {
			fatal("%v", err)
		}
		for _, e := range ents {
			n := e.Name()
			if e.IsDir() || !strings.HasSuffix(n, ".go") || strings.HasSuffix(n, "_test.go") {
				continue
			}
			in := filepath.Join(dir, n)
			res, changed := rewriteFile(in, rs, clk[n])
			if !changed {
				continue
			}
			var dst string
			if *inplace {
				dst = in
			} else {
				rel := strings.TrimPrefix(in, *strip)
				dst = filepath.Join(*out, rel)
				if err := os.MkdirAll(filepath.Dir(dst), 0755); err != nil {
					fatal("%v", err)
				}
			}
			if err := os.WriteFile(dst, res, 0644); err != nil {
				fatal("%v", err)
			}
			fmt.Printf("%s\t%s\n", in, dst)
		}
	}
}

type rewriter struct {
	fset     *token.FileSet
	file     *ast.File
	pkgName  string
	rules    map[string]bool
	clock    bool
	used     map[string]bool // sim packages referenced
	changed  bool
	funcName string
	ordinal  int
	initOrd  int
	// local names of imports: path -> local name
	localOf map[string]string
}

func rewriteFile(path string, rules map[string]bool, clock bool) ([]byte, bool) {
	fset := token.NewFileSet()
	src, err := os.ReadFile(path)
	if err != nil {
		fatal("%v", err)
	}
	f, err := parser.ParseFile(fset, path, src, parser.ParseComments)
	if err != nil {
		fatal("%v", err)
	}
	hasDirective := false
	for _, cg := range f.Comments {
		for _, c := range cg.List {
			if strings.HasPrefix(c.Text, "//go:") || strings.HasPrefix(c.Text, "// +build") {
				hasDirective = true
			}
		}
	}
	rw := &rewriter{fset: fset, file: f, pkgName: f.Name.Name, rules: rules, clock: clock,
		used: map[string]bool{}, localOf: map[string]string{}}
	for _, im := range f.Imports {
		p, _ := strconv.Unquote(im.Path.Value)
		name := filepath.Base(p)
		if im.Name != nil {
			name = im.Name.Name
		}
		rw.localOf[p] = name
	}
	rw.substitute()
	if rules["yield"] {
		rw.yields()
	}
	if !rw.changed {
		return nil, false
	}
	if hasDirective {
		fatal("%s: has compiler directives and needs rewriting; not supported", path)
	}
	rw.fixImports()
	f.Comments = nil // comments cannot be kept reliably around inserted nodes
	// drop doc comments too, they are printed via the Doc fields
	ast.Inspect(f, func(n ast.Node) bool {
		switch d := n.(type) {
		case *ast.GenDecl:
			d.Doc = nil
		case *ast.FuncDecl:
			d.Doc = nil
		case *ast.Field:
			d.Doc, d.Comment = nil, nil
		case *ast.ValueSpec:
			d.Doc, d.Comment = nil, nil
		case *ast.TypeSpec:
			d.Doc, d.Comment = nil, nil
		case *ast.ImportSpec:
			d.Doc, d.Comment = nil, nil
		}
		return true
	})
	f.Doc = nil
	var buf bytes.Buffer
	cfg := printer.Config{Mode: printer.UseSpaces | printer.TabIndent, Tabwidth: 8}
	if err := cfg.Fprint(&buf, fset, f); err != nil {
		fatal("%s: %v", path, err)
	}
	// re-parse as a sanity check
	if _, err := parser.ParseFile(token.NewFileSet(), path, buf.Bytes(), 0); err != nil {
		fatal("%s: rewritten file does not parse: %v", path, err)
	}
	return buf.Bytes(), true
}

func (rw *rewriter) activeSubsts() []subst {
	var out []subst
	keys := make([]string, 0, len(substRules))
	for k := range substRules {
		keys = append(keys, k)
	}
	sort.Strings(keys)
	for _, k := range keys {
		if k == "clock" {
			if rw.clock {
				out = append(out, substRules[k]...)
			}
			continue
		}
		if rw.rules[k] {
			out = append(out, substRules[k]...)
		}
	}
	return out
}

func (rw *rewriter) substitute() {
	subs := rw.activeSubsts()
	if len(subs) == 0 {
		return
	}
	ast.Inspect(rw.file, func(n ast.Node) bool {
		se, ok := n.(*ast.SelectorExpr)
		if !ok {
			return true
		}
		id, ok := se.X.(*ast.Ident)
		if !ok || id.Obj != nil {
			return true
		}
		for _, s := range subs {
			local, imported := rw.localOf[importPathOf[s.pkg]]
			if !imported || id.Name != local || se.Sel.Name != s.sel {
				continue
			}
			id.Name = s.newPkg
			se.Sel.Name = s.newSel
			rw.used[s.newPkg] = true
			rw.changed = true
			break
		}
		return true
	})
}

// fixImports adds the sim imports that are used and blanks std imports that
// lost their last reference.
func (rw *rewriter) fixImports() {
	stillUsed := map[string]bool{}
	ast.Inspect(rw.file, func(n ast.Node) bool {
		if se, ok := n.(*ast.SelectorExpr); ok {
			if id, ok := se.X.(*ast.Ident); ok && id.Obj == nil {
				stillUsed[id.Name] = true
			}
		}
		return true
	})
	for _, im := range rw.file.Imports {
		p, _ := strconv.Unquote(im.Path.Value)
		local := rw.localOf[p]
		if local == "_" || local == "." {
			continue
		}
		watch := false
		for _, ip := range importPathOf {
			if ip == p {
				watch = true
			}
		}
		if watch && !stillUsed[local] {
			im.Name = ast.NewIdent("_")
		}
	}
	var names []string
	for n := range rw.used {
		names = append(names, n)
	}
	sort.Strings(names)
	if len(names) == 0 {
		return
	}
	gd := &ast.GenDecl{Tok: token.IMPORT, Lparen: 1}
	for _, n := range names {
		spec := &ast.ImportSpec{Path: &ast.BasicLit{Kind: token.STRING, Value: strconv.Quote(simImports[n])}}
		gd.Specs = append(gd.Specs, spec)
		rw.file.Imports = append(rw.file.Imports, spec)
	}
	gd.Rparen = 2
	// imports must precede other declarations
	rw.file.Decls = append([]ast.Decl{gd}, rw.file.Decls...)
}

// ---------------------------------------------------------------- yields

var lockMethods = map[string]bool{"Lock": true, "RLock": true, "Unlock": true, "RUnlock": true, "Wait": true}

// syncInExpr reports whether evaluating e (not descending into function
// literals) performs a synchronisation operation.
func (rw *rewriter) syncInExpr(e ast.Node) bool {
	if e == nil {
		return false
	}
	found := false
	ast.Inspect(e, func(n ast.Node) bool {
		if found {
			return false
		}
		switch x := n.(type) {
		case *ast.FuncLit:
			return false
		case *ast.UnaryExpr:
			if x.Op == token.ARROW {
				found = true
			}
		case *ast.CallExpr:
			if se, ok := x.Fun.(*ast.SelectorExpr); ok {
				if lockMethods[se.Sel.Name] && len(x.Args) == 0 {
					found = true
				}
				if id, ok := se.X.(*ast.Ident); ok && id.Obj == nil && id.Name == "atomic" {
					found = true
				}
			}
		}
		return !found
	})
	return found
}

func (rw *rewriter) needsYield(s ast.Stmt) bool {
	switch x := s.(type) {
	case *ast.SelectStmt, *ast.SendStmt, *ast.GoStmt:
		return true
	case *ast.LabeledStmt:
		return rw.needsYield(x.Stmt)
	case *ast.ExprStmt:
		return rw.syncInExpr(x.X)
	case *ast.AssignStmt:
		for _, e := range x.Rhs {
			if rw.syncInExpr(e) {
				return true
			}
		}
		for _, e := range x.Lhs {
			if rw.syncInExpr(e) {
				return true
			}
		}
	case *ast.ReturnStmt:
		for _, e := range x.Results {
			if rw.syncInExpr(e) {
				return true
			}
		}
	case *ast.IfStmt:
		return rw.syncInStmt(x.Init) || rw.syncInExpr(x.Cond)
	case *ast.ForStmt:
		return rw.syncInStmt(x.Init) || rw.syncInExpr(x.Cond)
	case *ast.SwitchStmt:
		return rw.syncInStmt(x.Init) || rw.syncInExpr(x.Tag)
	case *ast.RangeStmt:
		return rw.syncInExpr(x.X)
	case *ast.DeclStmt:
		return rw.syncInExpr(x.Decl)
	case *ast.IncDecStmt:
		return rw.syncInExpr(x.X)
	}
	return false
}

func (rw *rewriter) syncInStmt(s ast.Stmt) bool {
	if s == nil {
		return false
	}
	return rw.needsYield(s)
}

func (rw *rewriter) yieldCall() ast.Stmt {
	site := fmt.Sprintf("%s.%s#%d", rw.pkgName, rw.funcName, rw.ordinal)
	rw.ordinal++
	rw.used["simrt"] = true
	rw.changed = true
	return &ast.ExprStmt{X: &ast.CallExpr{
		Fun:  &ast.SelectorExpr{X: ast.NewIdent("simrt"), Sel: ast.NewIdent("Y")},
		Args: []ast.Expr{&ast.BasicLit{Kind: token.STRING, Value: strconv.Quote(site)}},
	}}
}

func (rw *rewriter) list(in []ast.Stmt) []ast.Stmt {
	out := make([]ast.Stmt, 0, len(in)+4)
	for _, s := range in {
		if rw.needsYield(s) {
			out = append(out, rw.yieldCall())
		}
		rw.descend(s)
		out = append(out, s)
	}
	return out
}

// descend rewrites nested statement lists and function literals inside s.
func (rw *rewriter) descend(n ast.Node) {
	if n == nil {
		return
	}
	ast.Inspect(n, func(m ast.Node) bool {
		switch x := m.(type) {
		case *ast.BlockStmt:
			if x == nil {
				return false
			}
			x.List = rw.list(x.List)
			return false
		case *ast.CaseClause:
			for _, e := range x.List {
				rw.descend(e)
			}
			x.Body = rw.list(x.Body)
			return false
		case *ast.CommClause:
			x.Body = rw.list(x.Body)
			return false
		}
		return true
	})
}

func (rw *rewriter) yields() {
	for _, d := range rw.file.Decls {
		switch fd := d.(type) {
		case *ast.FuncDecl:
			if fd.Body == nil {
				continue
			}
			name := fd.Name.Name
			if fd.Recv != nil && len(fd.Recv.List) == 1 {
				t := fd.Recv.List[0].Type
				if st, ok := t.(*ast.StarExpr); ok {
					t = st.X
				}
				if id, ok := t.(*ast.Ident); ok {
					name = id.Name + "." + name
				}
			}
			rw.funcName = name
			rw.ordinal = 0
			fd.Body.List = rw.list(fd.Body.List)
		case *ast.GenDecl:
			// function literals in package-level vars
			rw.funcName = "init"
			rw.ordinal = rw.initOrd
			for _, sp := range fd.Specs {
				if vs, ok := sp.(*ast.ValueSpec); ok {
					for _, v := range vs.Values {
						rw.descend(v)
					}
				}
			}
			rw.initOrd = rw.ordinal
		}
	}
}
