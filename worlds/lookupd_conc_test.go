package zzverif

// Concurrent bursts and enumerated short histories for the lookupd world (C14).
//
// A concurrent burst issues producer commands (also of several producers on
// the same topic), disconnects and HTTP admin calls before the daemon runs any
// of them; the seeded scheduler interleaves them. The registry model is then
// executed as a small non-deterministic reference: every command is a sequence
// of key-level atomic updates (REGISTER t c = add to channel key, add to topic
// key; delete topic = list channel keys, remove each, remove topic key; ...),
// all interleavings of those sequences that respect per-connection order are
// explored, and the answers read after the burst must equal the outcome of at
// least one interleaving (status codes of the burst's own requests included).

import (
	"encoding/json"
	"fmt"
	"net/url"
	"sort"
	"strings"
	"testing/synctest"
	"time"
)

// ---------------------------------------------------------------- model state helpers

func (st *lState) clone() *lState {
	n := &lState{keys: map[lKey]map[int]bool{}, tomb: map[lKey]map[int]time.Time{}, fuzzy: map[lKey]bool{}, orph: map[lKey]bool{}}
	for k := range st.orph {
		n.orph[k] = true
	}
	for k, s := range st.keys {
		m := map[int]bool{}
		for i := range s {
			m[i] = true
		}
		n.keys[k] = m
	}
	for k, s := range st.tomb {
		m := map[int]time.Time{}
		for i, t := range s {
			m[i] = t
		}
		n.tomb[k] = m
	}
	for k := range st.fuzzy {
		n.fuzzy[k] = true
	}
	return n
}

func (st *lState) String() string {
	var parts []string
	for k, set := range st.keys {
		var ids []int
		for i := range set {
			ids = append(ids, i)
		}
		sort.Ints(ids)
		parts = append(parts, fmt.Sprintf("%s:%s:%s=%v", k.cat, k.key, k.sub, ids))
	}
	for k, set := range st.tomb {
		var ids []string
		for i, at := range set {
			ids = append(ids, fmt.Sprintf("%d@%d", i, at.UnixNano()))
		}
		sort.Strings(ids)
		if len(ids) > 0 {
			parts = append(parts, fmt.Sprintf("T:%s=%v", k.key, ids))
		}
	}
	for k := range st.fuzzy {
		parts = append(parts, fmt.Sprintf("F:%s:%s:%s", k.cat, k.key, k.sub))
	}
	for k := range st.orph {
		parts = append(parts, fmt.Sprintf("O:%s:%s:%s", k.cat, k.key, k.sub))
	}
	sort.Strings(parts)
	return strings.Join(parts, ";")
}

func isEph(s string) bool { return strings.HasSuffix(s, "#ephemeral") }

func (st *lState) addProducer(k lKey, idx int) {
	if st.keys[k] == nil {
		st.keys[k] = map[int]bool{}
	}
	if idx >= 0 {
		st.keys[k][idx] = true
	}
	delete(st.fuzzy, k)
	delete(st.orph, k)
}

// rmProducer returns the number of producers left (0 when the key is unknown).
func (st *lState) rmProducer(k lKey, idx int) int {
	set, ok := st.keys[k]
	if !ok {
		return 0
	}
	delete(set, idx)
	if k.cat == "topic" {
		if m := st.tomb[k]; m != nil {
			delete(m, idx) // the tombstone belongs to the registration that is gone now
		}
	}
	return len(set)
}

func (st *lState) rmRegistration(k lKey) {
	delete(st.keys, k)
	delete(st.fuzzy, k)
	delete(st.orph, k)
	if k.cat == "topic" {
		delete(st.tomb, k)
	}
}

// settleOrphans: an ephemeral registration that a disconnect left without any producer need not be listed any more.
func (st *lState) settleOrphans() {
	for k := range st.orph {
		if set, ok := st.keys[k]; ok && len(set) == 0 {
			delete(st.keys, k)
			st.fuzzy[k] = true
		}
	}
	st.orph = map[lKey]bool{}
}

// ---------------------------------------------------------------- command programs

// cop is one command of a burst with its program counter and local variables.
type cop struct {
	op     Op
	kind   string // register unregister ping close create_topic delete_topic create_channel delete_channel tombstone
	p      int    // producer index (commands of producers, tombstone target)
	t, ch  string
	pc     int
	regs   []lKey
	left   int
	status int // HTTP status the model predicts (0 = not an HTTP command)
}

func (c *cop) localString() string {
	var r []string
	for _, k := range c.regs {
		r = append(r, k.cat+":"+k.key+":"+k.sub)
	}
	return fmt.Sprintf("%d/%s/%d/%d", c.pc, strings.Join(r, ","), c.left, c.status)
}

func sortedKeysOf(st *lState, pred func(lKey, map[int]bool) bool) []lKey {
	var out []lKey
	for k, s := range st.keys {
		if pred(k, s) {
			out = append(out, k)
		}
	}
	sort.Slice(out, func(i, j int) bool {
		return out[i].cat+"\x00"+out[i].key+"\x00"+out[i].sub < out[j].cat+"\x00"+out[j].key+"\x00"+out[j].sub
	})
	return out
}

// step executes exactly one atomic registry access of the command; it returns true when the command is complete.
func (c *cop) step(st *lState, now time.Time) bool {
	tk := lKey{"topic", c.t, ""}
	ck := lKey{"channel", c.t, c.ch}
	switch c.kind {
	case "ping":
		return true
	case "register":
		if c.pc == 0 && c.ch != "" {
			st.addProducer(ck, c.p)
			c.pc = 1
			return false
		}
		st.addProducer(tk, c.p)
		return true
	case "unregister":
		if c.ch != "" {
			if c.pc == 0 {
				c.left = st.rmProducer(ck, c.p)
				c.pc = 1
				return !(c.left == 0 && isEph(c.ch))
			}
			st.rmRegistration(ck)
			return true
		}
		switch {
		case c.pc == 0:
			c.regs = sortedKeysOf(st, func(k lKey, _ map[int]bool) bool { return k.cat == "channel" && k.key == c.t })
			c.pc = 1
			return false
		case c.pc == 1 && len(c.regs) > 0:
			st.rmProducer(c.regs[0], c.p)
			c.regs = c.regs[1:]
			return false
		case c.pc == 1:
			c.left = st.rmProducer(tk, c.p)
			c.pc = 2
			return !(c.left == 0 && isEph(c.t))
		default:
			st.rmRegistration(tk)
			return true
		}
	case "close":
		if c.pc == 0 {
			c.regs = sortedKeysOf(st, func(_ lKey, s map[int]bool) bool { return s[c.p] })
			c.pc = 1
			return len(c.regs) == 0
		}
		k := c.regs[0]
		c.regs = c.regs[1:]
		if st.rmProducer(k, c.p) == 0 && (isEph(k.key) || isEph(k.sub)) {
			if _, ex := st.keys[k]; ex {
				st.orph[k] = true
			}
		}
		return len(c.regs) == 0
	case "create_topic":
		c.status = 200
		st.addProducer(tk, -1)
		return true
	case "create_channel":
		c.status = 200
		if c.pc == 0 {
			st.addProducer(ck, -1)
			c.pc = 1
			return false
		}
		st.addProducer(tk, -1)
		return true
	case "delete_topic":
		c.status = 200
		switch {
		case c.pc == 0:
			c.regs = sortedKeysOf(st, func(k lKey, _ map[int]bool) bool { return k.cat == "channel" && k.key == c.t })
			c.pc = 1
			return false
		case c.pc == 1 && len(c.regs) > 0:
			st.rmRegistration(c.regs[0])
			c.regs = c.regs[1:]
			return false
		case c.pc == 1:
			_, found := st.keys[tk]
			c.pc = 2
			return !found
		default:
			st.rmRegistration(tk)
			return true
		}
	case "delete_channel":
		if c.pc == 0 {
			_, found := st.keys[ck]
			if !found {
				c.status = 404
				return true
			}
			c.status = 200
			c.pc = 1
			return false
		}
		st.rmRegistration(ck)
		return true
	case "tombstone":
		c.status = 200
		if c.p >= 0 && st.keys[tk][c.p] {
			if st.tomb[tk] == nil {
				st.tomb[tk] = map[int]time.Time{}
			}
			st.tomb[tk][c.p] = now
		}
		return true
	}
	return true
}

// ---------------------------------------------------------------- interleaving search

type cOutcome struct {
	st       *lState
	statuses []int // per program, per command: predicted HTTP status (0 for producer commands)
}

type cProg struct {
	cmds []*cop
	at   int
}

func cloneProgs(ps []*cProg) []*cProg {
	out := make([]*cProg, len(ps))
	for i, p := range ps {
		np := &cProg{at: p.at, cmds: make([]*cop, len(p.cmds))}
		for j, c := range p.cmds {
			cc := *c
			cc.regs = append([]lKey(nil), c.regs...)
			np.cmds[j] = &cc
		}
		out[i] = np
	}
	return out
}

func cfgString(st *lState, ps []*cProg) string {
	var b strings.Builder
	b.WriteString(st.String())
	for _, p := range ps {
		fmt.Fprintf(&b, "|%d:", p.at)
		for _, c := range p.cmds {
			b.WriteString(c.localString())
			b.WriteByte(' ')
		}
	}
	return b.String()
}

// exploreOutcomes returns every outcome (final state + predicted statuses) some interleaving of the programs produces.
func exploreOutcomes(st0 *lState, progs []*cProg, now time.Time, limit int) (map[string]cOutcome, int) {
	outcomes := map[string]cOutcome{}
	seen := map[string]bool{}
	visited := 0
	var rec func(st *lState, ps []*cProg)
	rec = func(st *lState, ps []*cProg) {
		if visited > limit {
			return
		}
		key := cfgString(st, ps)
		if seen[key] {
			return
		}
		seen[key] = true
		visited++
		done := true
		for i, p := range ps {
			if p.at >= len(p.cmds) {
				continue
			}
			done = false
			nst := st.clone()
			nps := cloneProgs(ps)
			if nps[i].cmds[nps[i].at].step(nst, now) {
				nps[i].at++
			}
			rec(nst, nps)
			_ = p
		}
		if done {
			var sts []int
			for _, p := range ps {
				for _, c := range p.cmds {
					sts = append(sts, c.status)
				}
			}
			st.settleOrphans()
			outcomes[st.String()+fmt.Sprint(sts)] = cOutcome{st: st, statuses: sts}
		}
	}
	rec(st0.clone(), cloneProgs(progs))
	return outcomes, visited
}

// ---------------------------------------------------------------- running a concurrent burst

func (w *lWorld) concCompatible(burst []Op, op Op) bool {
	n := 0
	perProd := map[int]int{}
	closed := map[int]bool{}
	for _, b := range burst {
		if b.Kind == "bgread" {
			continue
		}
		n++
		if b.Kind != "http" {
			pi := int(uint64(b.A) % uint64(len(w.peers)))
			perProd[pi]++
			if b.Kind == "close" {
				closed[pi] = true
			}
		}
	}
	if op.Kind == "bgread" {
		return len(burst) < 8
	}
	if n >= 5 {
		return false
	}
	switch op.Kind {
	case "http":
		return true
	case "register", "unregister", "ping", "close":
		pi := int(uint64(op.A) % uint64(len(w.peers)))
		p := w.peers[pi]
		// participants are identified and recently pinged, so that everything they do is visible in the reads
		if !p.connected || !p.identified || time.Since(p.lastUpdate) > ms(w.cfg.InactiveMs) {
			return false
		}
		return perProd[pi] < 2 && !closed[pi]
	}
	return false
}

func (w *lWorld) runConcBurst(burst []Op) {
	rc := w.rc
	nw := 0
	for _, op := range burst {
		if op.Kind != "bgread" {
			nw++
		}
	}
	if nw == 0 {
		for _, op := range burst {
			w.exec(op)
		}
		return
	}
	rc.Probe("conc_bursts")
	now := time.Now()
	// programs: one per producer connection (commands in order), one per HTTP request
	var progs []*cProg
	byProd := map[int]*cProg{}
	type httpPend struct {
		c  *cop
		ch chan HTTPResp
		path string
	}
	var hp []*httpPend
	var bg []chan HTTPResp
	type prodPend struct {
		p *lPeer
		c *cop
	}
	var pp []prodPend
	for _, op := range burst {
		switch op.Kind {
		case "bgread":
			ch := make(chan HTTPResp, 1)
			path := op.S
			go func() { ch <- httpDo(rc, "GET", w.http, path, nil, nil, nil, 30*time.Second) }()
			bg = append(bg, ch)
			rc.Probe("concurrent_reads")
		case "http":
			t, chn := w.topicName(op.B), w.chanName(op.C)
			c := &cop{op: op, kind: op.S, t: t, ch: chn, p: -1}
			var path string
			switch op.S {
			case "create_topic":
				path = "/topic/create?topic=" + url.QueryEscape(t)
			case "delete_topic":
				path = "/topic/delete?topic=" + url.QueryEscape(t)
			case "create_channel":
				path = "/channel/create?topic=" + url.QueryEscape(t) + "&channel=" + url.QueryEscape(chn)
			case "delete_channel":
				path = "/channel/delete?topic=" + url.QueryEscape(t) + "&channel=" + url.QueryEscape(chn)
			case "tombstone":
				p := w.peers[int(uint64(op.A)%uint64(len(w.peers)))]
				node := fmt.Sprintf("%s:%d", p.bcast, p.httpPort)
				c.p = p.idx
				if op.D == 4 {
					node = "unknown.sim:1"
					c.p = -1
				}
				path = "/topic/tombstone?topic=" + url.QueryEscape(t) + "&node=" + url.QueryEscape(node)
			}
			h := &httpPend{c: c, ch: make(chan HTTPResp, 1), path: path}
			go func() { h.ch <- httpDo(rc, "POST", w.http, h.path, nil, nil, nil, 30*time.Second) }()
			hp = append(hp, h)
			progs = append(progs, &cProg{cmds: []*cop{c}})
		default:
			p := w.peers[int(uint64(op.A)%uint64(len(w.peers)))]
			c := &cop{op: op, kind: op.Kind, p: p.idx, t: w.topicName(op.B)}
			if op.D != 0 {
				c.ch = w.chanName(op.C)
			}
			if op.Kind == "close" {
				// a reset discards what the connection sent just before it; an orderly close delivers it first
				if op.B == 1 && byProd[p.idx] == nil {
					p.cl.Conn.Reset()
					rc.Fault("conn_reset")
				} else {
					p.cl.Close()
					rc.Fault("conn_close")
				}
			} else {
				w.send(p, op)
			}
			pr := byProd[p.idx]
			if pr == nil {
				pr = &cProg{}
				byProd[p.idx] = pr
				progs = append(progs, pr)
			}
			pr.cmds = append(pr.cmds, c)
			pp = append(pp, prodPend{p, c})
		}
	}
	synctest.Wait()
	// answers of the producers' commands
	for _, x := range pp {
		if x.c.kind == "close" {
			continue
		}
		resp, ok := w.readResp(x.p, 10*time.Second)
		if !ok || string(resp) != "OK" {
			// a reset connection loses the answers of the commands before it; an orderly close does not
			if !x.p.cl.Closed() || ok {
				w.violate("C14", "command-failed", "producer %d: %s answered %q ok=%v (concurrent burst)", x.p.idx, w.line(x.c.op), resp, ok)
				return
			}
		}
	}
	var gotStatus []int
	for _, h := range hp {
		r := <-h.ch
		rc.Logf("burst http %s -> %d %s err=%v", h.path, r.Status, r.Body, r.Err)
		if r.Err != nil {
			w.violate("C14", "admin-status", "%s: no answer (%v) (concurrent burst)", h.path, r.Err)
			return
		}
		gotStatus = append(gotStatus, r.Status)
	}
	for _, ch := range bg {
		if r := <-ch; r.Err != nil || (r.Status != 200 && r.Status != 404) {
			w.violate("C15", "read-failed", "concurrent HTTP read answered %d err=%v", r.Status, r.Err)
		}
	}
	synctest.Wait()
	// the reference: all interleavings of the key-level programs
	outcomes, visited := exploreOutcomes(w.cur(), progs, now, 200000)
	rc.ProbeN("conc_model_configurations", int64(visited))
	rc.ProbeN("conc_model_outcomes", int64(len(outcomes)))
	if len(outcomes) > 1 {
		rc.Probe("conc_bursts_with_several_outcomes")
	}
	if visited > 200000 {
		rc.Probe("conc_model_truncated")
		w.ended = true // not decided: stop checking this run rather than guess
		return
	}
	// peers' own state after the burst
	for _, x := range pp {
		switch x.c.kind {
		case "ping":
			x.p.lastUpdate = now
		case "close":
			x.p.connected, x.p.identified = false, false
		}
	}
	obs := w.fetchObs("C14")
	if rc.Failed() {
		return
	}
	// order the outcomes so that the choice is a function of the seed
	var keys []string
	for k := range outcomes {
		keys = append(keys, k)
	}
	sort.Strings(keys)
	var matching []cOutcome
	firstWhy := ""
	for _, k := range keys {
		o := outcomes[k]
		// statuses of the burst's own HTTP requests
		ok := true
		hi := 0
		for _, s := range o.statuses {
			if s == 0 {
				continue
			}
			if hi < len(gotStatus) && s != -1 && s != gotStatus[hi] {
				ok = false
				if firstWhy == "" {
					firstWhy = fmt.Sprintf("status of %s: %d, this interleaving predicts %d", hp[hi].path, gotStatus[hi], s)
				}
			}
			hi++
		}
		if !ok {
			continue
		}
		if class, detail := w.compare(obs, o.st); class != "" {
			if firstWhy == "" {
				firstWhy = class + ": " + detail
			}
			continue
		}
		matching = append(matching, o)
	}
	if len(matching) == 0 {
		var lines []string
		for _, op := range burst {
			if op.Kind == "bgread" {
				continue
			}
			if op.Kind == "http" {
				lines = append(lines, fmt.Sprintf("%s(t=%s,c=%s,node=%d)", op.S, w.topicName(op.B), w.chanName(op.C), op.A))
			} else if op.Kind == "close" {
				lines = append(lines, fmt.Sprintf("p%d:close", int(uint64(op.A)%uint64(len(w.peers)))))
			} else {
				lines = append(lines, fmt.Sprintf("p%d:%s", int(uint64(op.A)%uint64(len(w.peers))), w.line(op)))
			}
		}
		w.violate("C14", "burst-outcome-unreachable", "after the concurrent burst [%s] the read endpoints show a registry that none of the %d outcomes of the key-level reference (%d configurations explored) produces; closest: %s",
			strings.Join(lines, " || "), len(outcomes), visited, firstWhy)
		return
	}
	chosen := matching[0]
	if len(matching) > 1 {
		// several outcomes look the same through the four endpoints (e.g. who is in a channel's producer set):
		// /debug lists the producer sets; it only ever selects among outcomes that already match
		rc.Probe("conc_bursts_ambiguous_reads")
		dbg := w.fetchDebug()
		var m2 []cOutcome
		for _, o := range matching {
			if dbg != nil && w.debugMatches(dbg, o.st) {
				m2 = append(m2, o)
			}
		}
		if len(m2) == 0 {
			rc.Probe("conc_bursts_undecided")
			w.ended = true
			return
		}
		chosen = m2[0]
	}
	w.keys, w.tomb, w.fuzzy = chosen.st.keys, chosen.st.tomb, chosen.st.fuzzy
	rc.Logf("burst outcome adopted: %s", chosen.st.String())
}

// fetchDebug returns key -> set of producer broadcast addresses as /debug lists them.
func (w *lWorld) fetchDebug() map[string]map[string]bool {
	resp := httpDo(w.rc, "GET", w.http, "/debug", nil, nil, nil, 30*time.Second)
	if resp.Err != nil || resp.Status != 200 {
		return nil
	}
	var raw map[string][]struct {
		BroadcastAddress string `json:"broadcast_address"`
	}
	if err := json.Unmarshal(resp.Body, &raw); err != nil {
		return nil
	}
	out := map[string]map[string]bool{}
	for k, ps := range raw {
		m := map[string]bool{}
		for _, p := range ps {
			m[p.BroadcastAddress] = true
		}
		out[k] = m
	}
	return out
}

func (w *lWorld) debugMatches(dbg map[string]map[string]bool, st *lState) bool {
	for k, set := range st.keys {
		if k.cat == "client" {
			continue
		}
		name := k.cat + ":" + k.key + ":" + k.sub
		got := dbg[name]
		n := 0
		for idx := range set {
			if !got[w.peers[idx].bcast] {
				return false
			}
			n++
		}
		cnt := 0
		for b := range got {
			if strings.HasPrefix(b, "nsqd") {
				cnt++
			}
		}
		if cnt != n {
			return false
		}
	}
	return true
}

// ---------------------------------------------------------------- enumerated short histories

// lEnumAlphabet: the symbols of the exhaustive sequential exploration. Two producers, one topic, one channel.
var lEnumAlphabet = []string{
	"reg_t:0", "reg_tc:0", "unreg_t:0", "unreg_tc:0", "close:0", "reconnect:0", "ping:0",
	"reg_t:1", "reg_tc:1", "unreg_t:1", "unreg_tc:1", "close:1", "reconnect:1", "ping:1",
	"create_topic", "delete_topic", "create_channel", "delete_channel", "tombstone:0", "tombstone:1",
	"adv_tombstone", "adv_inactive",
}

// lEnumTotal is the number of histories of length n over the alphabet, times four name variants (durable/ephemeral topic and channel).
func lEnumTotal(n int) uint64 {
	t := uint64(4)
	for i := 0; i < n; i++ {
		t *= uint64(len(lEnumAlphabet))
	}
	return t
}

func genLEnum(index uint64, n int) (LCfg, []Op) {
	variant := index % 4
	index /= 4
	c := LCfg{InactiveMs: 5000, TombstoneMs: 2000, NProducers: 2, Enum: n, EnumIndex: int64(index*4 + variant)}
	c.Topics = []string{[]string{"t0", "e#ephemeral"}[variant&1]}
	c.Channels = []string{[]string{"c0", "x#ephemeral"}[variant>>1]}
	var ops []Op
	add := func(o Op) { o.Uid = len(ops); ops = append(ops, o) }
	// the two producers are interchangeable: a history whose first producer-specific symbol names producer 1 is the
	// mirror image of one that names producer 0 there, and is not run
	for i, x := 0, index; i < n; i++ {
		sym := lEnumAlphabet[x%uint64(len(lEnumAlphabet))]
		x /= uint64(len(lEnumAlphabet))
		if j := strings.IndexByte(sym, ':'); j >= 0 {
			if sym[j+1] == '1' {
				c.EnumMirror = true
				return c, nil
			}
			break
		}
	}
	for i := 0; i < 2; i++ {
		add(Op{Kind: "connect", A: int64(i)})
		add(Op{Kind: "identify", A: int64(i)})
	}
	for i := 0; i < n; i++ {
		sym := lEnumAlphabet[index%uint64(len(lEnumAlphabet))]
		index /= uint64(len(lEnumAlphabet))
		name, arg := sym, int64(0)
		if j := strings.IndexByte(sym, ':'); j >= 0 {
			name = sym[:j]
			arg = int64(sym[j+1] - '0')
		}
		switch name {
		case "reg_t":
			add(Op{Kind: "register", A: arg})
		case "reg_tc":
			add(Op{Kind: "register", A: arg, D: 1})
		case "unreg_t":
			add(Op{Kind: "unregister", A: arg})
		case "unreg_tc":
			add(Op{Kind: "unregister", A: arg, D: 1})
		case "close":
			add(Op{Kind: "close", A: arg})
		case "reconnect":
			add(Op{Kind: "connect", A: arg})
			add(Op{Kind: "identify", A: arg})
		case "ping":
			add(Op{Kind: "ping", A: arg})
		case "create_topic", "delete_topic", "create_channel", "delete_channel":
			add(Op{Kind: "http", S: name})
		case "tombstone":
			add(Op{Kind: "http", S: "tombstone", A: arg})
		case "adv_tombstone":
			add(Op{Kind: "adv", A: c.TombstoneMs + 1})
		case "adv_inactive":
			add(Op{Kind: "adv", A: c.InactiveMs + 1})
		}
	}
	return c, ops
}

// lEnumFor: every second seed of a C14 run is one history of the exhaustive enumeration (length 3 in the quick tier, 4 in the thorough tier).
func lEnumFor(rc *RunCtx) (int, uint64) {
	if rc.Prop != "C14" || rc.Seed%2 != 0 {
		return 0, 0
	}
	n := 3
	if rc.Tier == "thorough" {
		n = 4
	}
	return n, (rc.Seed / 2) % lEnumTotal(n)
}
