package zzverif

import (
	"bufio"
	"bytes"
	"crypto/tls"
	"encoding/json"
	"fmt"
	"io"
	"net/http"
	"regexp"
	"sort"
	"strings"
	"sync"
	"testing/synctest"
	"time"

	"github.com/nsqio/nsq/nsqd"

	"verifsim/simnet"
)

func init() { registerWorld("policy", policyWorld) }

// The policy world (C11): one real nsqd with a TLS policy and (optionally)
// stub auth servers inside the bubble. A reference gate decides for every
// command whether it may execute; after every operation the registry of the
// real daemon (topics, channels, message counts) must equal the reference
// registry, so anything executed without permission, and any trace left by a
// denial, shows up as a difference.

const certDir = "/repo/nsqd/test/certs/"

type grant struct {
	Topic    string   `json:"topic"`
	Channels []string `json:"channels"`
	Perms    []string `json:"permissions"`
}

// grantCatalog: publish grants always carry a ".*" channel pattern (what the
// auth documentation prescribes; the meaning of a restricted channel list for
// a publish is not specified and is not exercised).
var grantCatalog = [][]grant{
	0: {},
	1: {{".*", []string{".*"}, []string{"publish", "subscribe"}}},
	2: {{"^ta$", []string{".*"}, []string{"publish"}}},
	3: {{"^ta$", []string{"^c1$"}, []string{"subscribe"}}},
	4: {{"^t[ab]$", []string{"^c1$", "^c2$"}, []string{"subscribe"}}, {"^tc$", []string{".*"}, []string{"publish"}}},
	5: {{"^tb$", []string{".*"}, []string{"subscribe"}}, {"^ta$", []string{".*"}, []string{"publish"}}},
	6: {{"a", []string{".*"}, []string{"publish", "subscribe"}}},
	7: {{"^t[ab]$", []string{"^c"}, []string{"subscribe"}}},
	8: {{"^tb$", []string{".*"}, []string{"publish"}}, {"^tb$", []string{"^d1$"}, []string{"subscribe"}}},
	// a subscribe grant that names no channel allows no channel (empty list, and no list at all)
	9:  {{"^ta$", []string{}, []string{"subscribe"}}, {"^tb$", []string{".*"}, []string{"publish"}}},
	10: {{"^t[ab]$", nil, []string{"subscribe"}}, {"^tc$", []string{"^c2$"}, []string{"subscribe"}}},
}

var polTopics = []string{"ta", "tb", "tc"}
var polChannels = []string{"c1", "c2", "d1"}
var polSecrets = []string{"s0", "s1", "s2", "tlsonly", "nobody"}

type secretEntry struct {
	Set int `json:"set"`
	TTL int `json:"ttl"`
}

type PolCfg struct {
	TLSMode     int                    `json:"tls_mode"` // 0 not required, 1 tcp-https, 2 required
	Cert        bool                   `json:"cert"`     // server certificate configured
	Policy      string                 `json:"client_auth_policy"`
	AuthServers int                    `json:"auth_servers"`
	AuthPost    bool                   `json:"auth_post"`
	Secrets     map[string]secretEntry `json:"secrets"`
	YieldProb   uint32                 `json:"yield_prob"`
	ShortReads  int                    `json:"short_reads"`
	NoHTTPS     bool                   `json:"no_https,omitempty"` // certificate configured but no HTTPS listener (https-address empty)
}

// effective TLS mode (a client-certificate policy implies "required")
func (c PolCfg) mode() int {
	if c.Policy != "" && c.TLSMode == 0 {
		return 2
	}
	return c.TLSMode
}

const (
	amOK = iota
	am500
	amGarbage
	amReset
	amTTL0
	amBadPerm
	amBadRegex
	amStall
	am403
	amN
)

type authStub struct {
	idx  int
	addr string
	mode int
	srv  *http.Server
	ln   *simnet.Listener
}

type polConn struct {
	cl         *V2Client
	key        string // unique per connection incarnation
	tls        bool
	cn         string
	subscribed bool
	authed     bool
	secret     string
	grants     []grant
	expires    time.Time
	newTTL     int
}

type polTopic struct {
	chans map[string]bool
	count int64
}

type polWorld struct {
	rc     *RunCtx
	cfg    PolCfg
	n      *nsqd.NSQD
	conns  [3]*polConn
	inc    int
	stubs  []*authStub
	mu     sync.Mutex
	table  map[string]secretEntry
	byKey  map[string]*polConn
	nquery int
	topics map[string]*polTopic
	certOK, certSelf tls.Certificate
	bodyN  int
	lastConnect [3]Op
}

func genPolCfg(rc *RunCtx) PolCfg {
	r := rc.Rng
	c := PolCfg{Secrets: map[string]secretEntry{}}
	c.TLSMode = r.Pick(0, 0, 1, 2, 2)
	c.Cert = c.TLSMode != 0 || r.Chance(1, 2)
	if c.Cert && r.Chance(1, 3) {
		c.Policy = r.PickS("require", "require-verify")
	}
	c.AuthServers = r.Pick(0, 1, 1, 2)
	c.AuthPost = r.Chance(1, 3)
	c.NoHTTPS = c.Cert && r.Chance(1, 4)
	for _, s := range polSecrets {
		if s == "nobody" {
			continue
		}
		c.Secrets[s] = secretEntry{Set: r.Intn(len(grantCatalog)), TTL: r.Pick(1, 2, 5, 30, 3600)}
	}
	c.YieldProb = uint32(r.Pick(0, 1024, 4096))
	c.ShortReads = r.Pick(0, 2, 8)
	return c
}

func genPolOps(rc *RunCtx, c PolCfg) []Op {
	r := rc.Rng
	n := r.Range(8, 50)
	var ops []Op
	add := func(o Op) { o.Uid = len(ops); ops = append(ops, o) }
	good := int64(1) // a connect variant that satisfies the drawn policy
	if c.Cert {
		good = int64(r.Pick(2, 3))
	}
	for len(ops) < n {
		conn := int64(r.Intn(3))
		if r.Chance(2, 5) {
			// a well-behaved session: connect as the policy demands, authenticate,
			// work, let the TTL pass (possibly with a change of mind), work again
			sec := r.PickS("s0", "s1", "s2", "tlsonly")
			add(Op{Kind: "connect", A: conn, B: good, C: 1})
			if c.AuthServers > 0 {
				add(Op{Kind: "cmd", S: "AUTH", A: conn, S2: sec})
			}
			for k := r.Range(1, 4); k > 0; k-- {
				switch r.Intn(5) {
				case 0:
					add(Op{Kind: "cmd", S: "SUB", A: conn, B: int64(r.Intn(3)), C: int64(r.Intn(3))})
				case 1:
					add(Op{Kind: "adv", A: int64(r.Pick(300, 1100, 2300, 5500, 31000))})
				case 2:
					add(Op{Kind: "setgrant", S: sec, B: int64(r.Intn(len(grantCatalog))), C: int64(r.Pick(1, 2, 5, 30))})
				default:
					add(Op{Kind: "cmd", S: r.PickS("PUB", "PUB", "MPUB", "DPUB"), A: conn, B: int64(r.Intn(3)), C: int64(r.Range(1, 3))})
				}
			}
			continue
		}
		switch r.Weighted([]int{12, 12, 12, 6, 5, 12, 5, 8, 6, 8, 6, 4, 3}) {
		case 0: // (re)connect: B = variant, C = client certificate
			add(Op{Kind: "connect", A: conn, B: int64(r.Intn(5)), C: int64(r.Intn(3))})
		case 1:
			add(Op{Kind: "cmd", S: "AUTH", A: conn, S2: r.PickS(polSecrets...)})
		case 2:
			add(Op{Kind: "cmd", S: "PUB", A: conn, B: int64(r.Intn(3))})
		case 3:
			add(Op{Kind: "cmd", S: "MPUB", A: conn, B: int64(r.Intn(3)), C: int64(r.Range(1, 4))})
		case 4:
			add(Op{Kind: "cmd", S: "DPUB", A: conn, B: int64(r.Intn(3)), C: int64(r.Pick(0, 50, 60000))})
		case 5:
			add(Op{Kind: "cmd", S: "SUB", A: conn, B: int64(r.Intn(3)), C: int64(r.Intn(3))})
		case 6:
			add(Op{Kind: "cmd", S: r.PickS("NOP", "NOP", "RDY", "CLS"), A: conn, B: int64(r.Intn(2))})
		case 7:
			add(Op{Kind: "http", B: int64(r.Intn(8)), C: int64(r.Intn(3)), D: int64(r.Intn(3))})
		case 8:
			add(Op{Kind: "https", B: int64(r.Intn(8)), C: int64(r.Intn(3)), D: int64(r.Intn(3)), A: int64(r.Intn(3))})
		case 9:
			add(Op{Kind: "adv", A: int64(r.Pick(300, 1100, 2300, 5500, 31000))})
		case 10:
			add(Op{Kind: "setgrant", S: r.PickS("s0", "s1", "s2", "tlsonly"), B: int64(r.Intn(len(grantCatalog))), C: int64(r.Pick(1, 2, 5, 30, 3600))})
		case 11:
			add(Op{Kind: "authmode", A: int64(r.Intn(2)), B: int64(r.Intn(amN))})
		case 12:
			add(Op{Kind: "close", A: conn})
		}
	}
	return ops
}

func policyWorld(rc *RunCtx) {
	w := &polWorld{rc: rc, byKey: map[string]*polConn{}, topics: map[string]*polTopic{}, table: map[string]secretEntry{}}
	var ops []Op
	if rc.Replay != nil {
		if err := json.Unmarshal(rc.Replay.Cfg, &w.cfg); err != nil {
			panic(err)
		}
		ops = rc.Replay.Ops
	} else {
		w.cfg = genPolCfg(rc)
		ops = genPolOps(rc, w.cfg)
	}
	c := w.cfg
	if rc.GenOnly(c, ops) {
		return
	}
	for k, v := range c.Secrets {
		w.table[k] = v
	}
	rc.Sched.Prob = c.YieldProb
	netRng := NewPRNG(rc.Seed ^ 0x77)
	installShortReads(rc, c.ShortReads, &netRng)
	var err error
	if w.certOK, err = tls.LoadX509KeyPair(certDir+"client.pem", certDir+"client.key"); err != nil {
		panic("harness: " + err.Error())
	}
	if w.certSelf, err = tls.LoadX509KeyPair(certDir+"cert.pem", certDir+"key.pem"); err != nil {
		panic("harness: " + err.Error())
	}
	o := nsqd.NewOptions()
	o.Logger = &simLogger{rc: rc, name: "nsqd"}
	o.TCPAddress, o.HTTPAddress, o.HTTPSAddress = "127.0.0.1:4150", "127.0.0.1:4151", "127.0.0.1:4152"
	o.BroadcastAddress = "127.0.0.1"
	o.DataPath = rc.Dir
	o.ClientTimeout = 20 * time.Minute // no heartbeats within a run
	o.MaxHeartbeatInterval = 20 * time.Minute
	o.HTTPClientConnectTimeout = 2 * time.Second
	o.HTTPClientRequestTimeout = 3 * time.Second
	o.MaxReqTimeout = time.Hour
	o.TLSRequired = c.TLSMode
	if c.Cert {
		o.TLSCert, o.TLSKey = certDir+"server.pem", certDir+"server.key"
		o.TLSClientAuthPolicy = c.Policy
		if c.Policy == "require-verify" {
			o.TLSRootCAFile = certDir + "ca.pem"
		}
	} else {
		o.HTTPSAddress = ""
	}
	if c.NoHTTPS {
		o.HTTPSAddress = ""
	}
	for i := 0; i < c.AuthServers; i++ {
		st := &authStub{idx: i, addr: fmt.Sprintf("127.0.0.1:%d", 4181+i)}
		ln, err := rc.Net.Listen("tcp", st.addr)
		if err != nil {
			panic("harness: " + err.Error())
		}
		st.ln = ln
		st.srv = &http.Server{Handler: http.HandlerFunc(func(rw http.ResponseWriter, req *http.Request) { w.serveAuth(st, rw, req) })}
		go st.srv.Serve(ln)
		w.stubs = append(w.stubs, st)
		o.AuthHTTPAddresses = append(o.AuthHTTPAddresses, st.addr)
	}
	if c.AuthPost {
		o.AuthHTTPRequestMethod = "post"
	}
	rc.Defer(func() {
		for _, st := range w.stubs {
			st.srv.Close()
		}
		for _, sc := range rc.Net.Conns() {
			sc.Reset()
		}
		synctest.Wait()
	})
	n, err := nsqd.New(o)
	if err != nil {
		rc.Violate(rc.Prop, "startup-failed", "%v", err)
		return
	}
	n.LoadMetadata()
	n.PersistMetadata()
	w.n = n
	go n.Main()
	rc.Defer(func() {
		for _, pc := range w.conns {
			if pc != nil {
				pc.cl.Close()
			}
		}
		n.Exit()
		synctest.Wait()
	})
	synctest.Wait()
	rc.Logf("cfg %+v", c)
	for i, op := range ops {
		rc.step = i + 1
		rc.Reseed(op.Uid)
		netRng = NewPRNG(rc.Seed*131 + uint64(op.Uid))
		rc.opsKind[op.Kind]++
		rc.Logf("op %d uid=%d %s a=%d b=%d c=%d d=%d s=%q s2=%q", i, op.Uid, op.Kind, op.A, op.B, op.C, op.D, op.S, op.S2)
		switch op.Kind {
		case "connect":
			w.opConnect(op)
		case "cmd":
			w.opCmd(op)
		case "http":
			w.opHTTP(op, false)
		case "https":
			w.opHTTP(op, true)
		case "adv":
			time.Sleep(ms(op.A) + 137*time.Microsecond)
		case "setgrant":
			w.mu.Lock()
			w.table[op.S] = secretEntry{Set: int(uint64(op.B) % uint64(len(grantCatalog))), TTL: int(op.C)}
			w.mu.Unlock()
		case "authmode":
			if len(w.stubs) > 0 {
				st := w.stubs[int(uint64(op.A)%uint64(len(w.stubs)))]
				w.mu.Lock()
				st.mode = int(uint64(op.B) % amN)
				w.mu.Unlock()
			}
		case "close":
			if pc := w.conns[op.A%3]; pc != nil {
				pc.cl.Close()
				pc.cl.WaitClosed(5 * time.Second)
				w.conns[op.A%3] = nil
			}
		}
		synctest.Wait()
		if rc.Failed() {
			break
		}
		w.checkRegistry(op)
		if rc.Failed() {
			break
		}
	}
	rc.Res.Ops = len(ops)
	rc.Res.Nontrivial = len(ops) > 3
	var keys []string
	for t, pt := range w.topics {
		keys = append(keys, fmt.Sprint(t, len(pt.chans), pt.count))
	}
	sort.Strings(keys)
	rc.Res.State = fmt.Sprintf("%016x", fnv([]byte(fmt.Sprint(keys, w.nquery, c.mode(), c.Policy, c.AuthServers))))
	sample := map[string]interface{}{"seed": rc.Seed, "cfg": c, "ops_head": head(ops, 12), "n_ops": len(ops)}
	rc.Res.Sample, _ = json.Marshal(sample)
	if rc.Failed() {
		rc.writeReplay(c, ops)
	}
}

// ---------------------------------------------------------------- auth server stub

func (w *polWorld) serveAuth(st *authStub, rw http.ResponseWriter, req *http.Request) {
	q := req.URL.Query()
	if req.Method == "POST" {
		// internal/http_api sends the url.Values as a JSON object of string lists
		b, _ := io.ReadAll(req.Body)
		var m map[string][]string
		if json.Unmarshal(b, &m) == nil {
			for k, v := range m {
				q[k] = v
			}
		}
	}
	w.mu.Lock()
	mode := st.mode
	w.nquery++
	secret := q.Get("secret")
	name := secret
	key := ""
	if i := strings.IndexByte(secret, '/'); i >= 0 {
		name, key = secret[:i], secret[i+1:]
	}
	pc := w.byKey[key]
	ent, known := w.table[name]
	w.mu.Unlock()
	w.rc.Logf("authd%d query method=%s secret=%q tls=%s cn=%q ip=%s mode=%d", st.idx, req.Method, secret, q.Get("tls"), q.Get("common_name"), q.Get("remote_ip"), mode)
	wantMethod := "GET"
	if w.cfg.AuthPost {
		wantMethod = "POST"
	}
	if req.Method != wantMethod {
		w.rc.Violate("C11", "auth-query-wrong-method", "auth server queried with %s, configured %s", req.Method, wantMethod)
	}
	// the query must describe the connection truthfully: an auth server that
	// grants by transport security or certificate name relies on it
	if pc != nil {
		wantTLS := "false"
		if pc.tls {
			wantTLS = "true"
		}
		if q.Get("tls") != wantTLS || q.Get("common_name") != pc.cn || q.Get("remote_ip") != "127.0.0.1" {
			w.rc.Violate("C11", "auth-query-misreports-connection", "auth query for connection %s says tls=%s common_name=%q remote_ip=%s; the connection has tls=%s common_name=%q remote_ip=127.0.0.1",
				key, q.Get("tls"), q.Get("common_name"), q.Get("remote_ip"), wantTLS, pc.cn)
		}
	}
	reset := func() {
		if hj, ok := rw.(http.Hijacker); ok {
			c, _, _ := hj.Hijack()
			if sc, ok := c.(*simnet.Conn); ok {
				sc.Reset()
			} else {
				c.Close()
			}
		}
	}
	switch mode {
	case am500:
		w.rc.Fault("authd_500")
		rw.WriteHeader(500)
		rw.Write([]byte(`{"message":"INTERNAL_ERROR"}`))
		return
	case am403:
		w.rc.Fault("authd_403")
		rw.WriteHeader(403)
		rw.Write([]byte(`{"message":"FORBIDDEN"}`))
		return
	case amGarbage:
		w.rc.Fault("authd_garbage")
		rw.Write([]byte(`{"ttl": 60, "authorizations": [{"topic": ".*", "chan`))
		return
	case amReset:
		w.rc.Fault("authd_reset")
		reset()
		return
	case amStall:
		w.rc.Fault("authd_stall")
		time.Sleep(20 * time.Second)
		reset()
		return
	}
	if !known {
		rw.WriteHeader(403)
		rw.Write([]byte(`{"message":"UNKNOWN_SECRET"}`))
		return
	}
	gs := grantCatalog[ent.Set]
	if name == "tlsonly" && q.Get("tls") != "true" {
		gs = nil
	}
	ttl := ent.TTL
	out := map[string]interface{}{"identity": name, "identity_url": "http://id.example/" + name}
	auths := make([]grant, len(gs))
	copy(auths, gs)
	switch mode {
	case amTTL0:
		w.rc.Fault("authd_ttl0")
		ttl = 0
	case amBadPerm:
		w.rc.Fault("authd_badperm")
		auths = append(auths, grant{".*", []string{".*"}, []string{"publish", "admin"}})
	case amBadRegex:
		w.rc.Fault("authd_badregex")
		auths = append(auths, grant{"t(", []string{".*"}, []string{"publish"}})
	}
	out["ttl"] = ttl
	out["authorizations"] = auths
	b, _ := json.Marshal(out)
	rw.Header().Set("Content-Type", "application/json")
	rw.Write(b)
}

// authAnswer: what a query for this connection yields right now (reference).
func (w *polWorld) authAnswer(pc *polConn, name string) (gs []grant, ttl int, ok bool) {
	w.mu.Lock()
	defer w.mu.Unlock()
	healthy := false
	for _, st := range w.stubs {
		if st.mode == amOK {
			healthy = true
		}
	}
	ent, known := w.table[name]
	if !healthy || !known || ent.TTL <= 0 {
		return nil, 0, false
	}
	gs = grantCatalog[ent.Set]
	if name == "tlsonly" && !pc.tls {
		gs = nil
	}
	return gs, ent.TTL, true
}

func grantsAllow(gs []grant, topic, channel string) bool {
	perm := "publish"
	if channel != "" {
		perm = "subscribe"
	}
	for _, g := range gs {
		has := false
		for _, p := range g.Perms {
			if p == perm {
				has = true
			}
		}
		if !has || !regexp.MustCompile(g.Topic).MatchString(topic) {
			continue
		}
		for _, c := range g.Channels {
			if regexp.MustCompile(c).MatchString(channel) {
				return true
			}
		}
	}
	return false
}

// ---------------------------------------------------------------- connections

func (w *polWorld) opConnect(op Op) {
	i := int(op.A % 3)
	w.lastConnect[i] = op
	if pc := w.conns[i]; pc != nil {
		pc.cl.Close()
		pc.cl.WaitClosed(5 * time.Second)
		w.conns[i] = nil
	}
	w.inc++
	cl, err := dialV2(w.rc, fmt.Sprintf("c%d.%d", i, w.inc), "127.0.0.1:4150", "  V2")
	if err != nil {
		w.rc.Violate("C11", "connect-failed", "%v", err)
		return
	}
	pc := &polConn{cl: cl, key: fmt.Sprintf("%d.%d", i, w.inc)}
	w.mu.Lock()
	w.byKey[pc.key] = pc
	w.mu.Unlock()
	w.conns[i] = pc
	variant := op.B % 5
	// 0: no IDENTIFY; 1: IDENTIFY without TLS; 2,3: IDENTIFY asking for TLS;
	// 4: IDENTIFY asking for TLS with a plaintext command pipelined behind it
	if variant == 0 {
		cl.Start()
		return
	}
	wantTLS := variant >= 2
	var cert *tls.Certificate
	cn := ""
	switch op.C % 3 {
	case 1:
		cert, cn = &w.certOK, "nsq.io"
	case 2:
		cert, cn = &w.certSelf, "test.local"
	}
	tcfg := &tls.Config{InsecureSkipVerify: true}
	if cert != nil {
		tcfg.Certificates = []tls.Certificate{*cert}
	}
	handshakeShouldWork := true
	switch w.cfg.Policy {
	case "require":
		handshakeShouldWork = cert != nil
	case "require-verify":
		handshakeShouldWork = cert == &w.certOK
	default:
		cn = "" // the server does not ask for a certificate
	}
	opts := map[string]interface{}{"client_id": pc.key, "feature_negotiation": true, "tls_v1": wantTLS}
	if variant == 4 {
		// a plaintext PUB in the same segment behind the IDENTIFY that negotiates
		// TLS: it must never be executed once TLS has been negotiated
		var buf bytes.Buffer
		buf.WriteString("PUB tc\n")
		buf.Write(be32(4))
		buf.WriteString("leak")
		cl.Pipelined = buf.Bytes()
		w.rc.Probe("pipelined_plaintext_after_identify")
	}
	resp, err := cl.Identify(opts, tcfg)
	negotiated, _ := resp["tls_v1"].(bool)
	if wantTLS && w.cfg.Cert != negotiated && err == nil {
		w.rc.Violate("C11", "tls-negotiation-wrong", "tls_v1 requested, certificate configured=%v, answer tls_v1=%v", w.cfg.Cert, negotiated)
		return
	}
	if ar, _ := resp["auth_required"].(bool); resp != nil && len(resp) > 0 && ar != (len(w.stubs) > 0) {
		w.rc.Violate("C11", "auth-required-flag-wrong", "IDENTIFY says auth_required=%v with %d auth servers", ar, len(w.stubs))
		return
	}
	if variant == 4 && w.cfg.Cert {
		// the server either dropped the pipelined bytes with its read buffer or
		// took them for a TLS record and failed the handshake; both are fine
		if err != nil {
			w.rc.Probe("pipelined_broke_handshake")
			cl.Close()
			w.conns[i] = nil
			synctest.Wait()
			if w.cfg.mode() == 0 && len(w.stubs) == 0 {
				w.adoptTopic("tc")
			}
			return
		}
		w.rc.Probe("pipelined_dropped")
		if w.cfg.mode() == 0 && len(w.stubs) == 0 {
			synctest.Wait()
			w.adoptTopic("tc")
		}
	}
	if wantTLS && w.cfg.Cert {
		if handshakeShouldWork && err != nil {
			w.rc.Violate("C11", "tls-upgrade-failed", "client certificate satisfies policy %q but the upgrade failed: %v", w.cfg.Policy, err)
			return
		}
		if !handshakeShouldWork {
			if err == nil {
				w.rc.Violate("C11", "client-cert-policy-bypassed", "policy %q, certificate choice %d: TLS upgrade succeeded", w.cfg.Policy, op.C%3)
				return
			}
			w.rc.Probe("client_cert_refused")
			cl.Close()
			w.conns[i] = nil
			return
		}
		pc.tls, pc.cn = true, cn
		w.rc.Probe("tls_connections")
	} else if err != nil {
		w.rc.Violate("C11", "identify-failed", "plain IDENTIFY failed: %v", err)
		return
	}
	cl.Start()
	if variant == 4 && !w.cfg.Cert {
		// no TLS available: tls_v1 was answered false and the PUB is an ordinary command
		w.expectGated(pc, "PUB", "tc", "", 1)
	}
}

func (w *polWorld) adoptTopic(t string) {
	st := w.n.GetStats(t, "", false)
	for _, ts := range st.Topics {
		if ts.TopicName == t {
			pt := w.topic(t)
			if ts.MessageCount == uint64(pt.count)+1 {
				pt.count++
				w.rc.Probe("pipelined_plaintext_executed_where_allowed")
			}
		}
	}
}

func (w *polWorld) topic(t string) *polTopic {
	pt := w.topics[t]
	if pt == nil {
		pt = &polTopic{chans: map[string]bool{}}
		w.topics[t] = pt
	}
	return pt
}

func (w *polWorld) ensureConn(i int) *polConn {
	pc := w.conns[i]
	if pc != nil && !pc.cl.Closed() {
		return pc
	}
	last := w.lastConnect[i]
	last.A = int64(i)
	if last.B%5 == 4 {
		last.B = 2
	}
	w.opConnect(last)
	return w.conns[i]
}

// expectFatal: the next non-message frame is the given error and the connection ends.
func (w *polWorld) expectFatal(pc *polConn, what, code string) {
	f, ok := pc.cl.WaitFrame(30*time.Second, isNonMsg)
	if !ok || f.Type != frameError || errCode(f.Data) != code {
		w.rc.Violate("C11", "wrong-answer", "%s on connection %s (tls=%v authed=%v): expected fatal %s, got type=%d %q ok=%v", what, pc.key, pc.tls, pc.authed, code, f.Type, f.Data, ok)
		return
	}
	if !pc.cl.WaitClosed(30 * time.Second) {
		w.rc.Violate("C11", "fatal-error-did-not-close", "%s answered %s but the connection stayed open", what, code)
		return
	}
	w.rc.Probe("denied_" + code)
	w.dropConn(pc)
}

func (w *polWorld) dropConn(pc *polConn) {
	for i := range w.conns {
		if w.conns[i] == pc {
			w.conns[i] = nil
		}
	}
}

func (w *polWorld) expectOK(pc *polConn, what string) bool {
	f, ok := pc.cl.WaitFrame(30*time.Second, isNonMsg)
	if !ok || f.Type != frameResponse || string(f.Data) != "OK" {
		w.rc.Violate("C11", "permitted-command-refused", "%s on connection %s (tls=%v authed=%v secret=%s): expected OK, got type=%d %q ok=%v", what, pc.key, pc.tls, pc.authed, pc.secret, f.Type, f.Data, ok)
		return false
	}
	return true
}

// gate: reference decision for PUB/MPUB/DPUB/SUB. Returns "" when the command
// may execute, otherwise the expected fatal error code.
func (w *polWorld) gate(pc *polConn, topic, channel string) string {
	if w.cfg.mode() != 0 && !pc.tls {
		return "E_INVALID"
	}
	if len(w.stubs) == 0 {
		return ""
	}
	if !pc.authed {
		return "E_AUTH_FIRST"
	}
	if pc.expires.Before(time.Now()) {
		gs, ttl, ok := w.authAnswer(pc, pc.secret)
		w.rc.Probe("ttl_expired_refetch")
		if !ok {
			return "E_AUTH_FAILED"
		}
		pc.grants, pc.newTTL = gs, ttl
		pc.authed = len(gs) > 0
	}
	if !grantsAllow(pc.grants, topic, channel) {
		return "E_UNAUTHORIZED"
	}
	return ""
}

// expectGated sends nothing; it evaluates the outcome of an already sent
// PUB-like command with n messages to topic (channel != "" for SUB).
func (w *polWorld) expectGated(pc *polConn, what, topic, channel string, n int64) {
	code := w.gate(pc, topic, channel)
	switch code {
	case "":
		if !w.expectOK(pc, what+" "+topic+" "+channel) {
			return
		}
		if pc.newTTL > 0 {
			// the answer was re-fetched while this command ran (a stalled auth
			// server may have cost simulated time): it is valid from now
			pc.expires = time.Now().Add(time.Duration(pc.newTTL) * time.Second)
			pc.newTTL = 0
		}
		pt := w.topic(topic)
		pt.count += n
		if channel != "" {
			pt.chans[channel] = true
			pc.subscribed = true
		}
		w.rc.Probe("executed_" + what)
	default:
		w.expectFatal(pc, what+" "+topic+" "+channel, code)
	}
}

func (w *polWorld) opCmd(op Op) {
	pc := w.ensureConn(int(op.A % 3))
	if pc == nil {
		return
	}
	topic := polTopics[int(uint64(op.B)%3)]
	w.bodyN++
	body := []byte(fmt.Sprintf("b%05d", w.bodyN))
	tlsGate := w.cfg.mode() != 0 && !pc.tls
	if pc.authed && pc.expires.Equal(time.Now()) {
		time.Sleep(time.Microsecond) // "expired" exactly at the boundary is not specified
	}
	switch op.S {
	case "PUB":
		pc.cl.Cmd("PUB "+topic, body)
		w.expectGated(pc, "PUB", topic, "", 1)
	case "DPUB":
		pc.cl.Cmd(fmt.Sprintf("DPUB %s %d", topic, op.C), body)
		w.expectGated(pc, "DPUB", topic, "", 1)
	case "MPUB":
		var buf bytes.Buffer
		buf.Write(be32(int32(op.C)))
		for k := int64(0); k < op.C; k++ {
			buf.Write(be32(int32(len(body))))
			buf.Write(body)
		}
		pc.cl.Cmd("MPUB "+topic, buf.Bytes())
		w.expectGated(pc, "MPUB", topic, "", op.C)
	case "SUB":
		ch := polChannels[int(uint64(op.C)%3)]
		pc.cl.Cmd("SUB "+topic+" "+ch, nil)
		if !tlsGate && pc.subscribed {
			w.expectFatal(pc, "second SUB", "E_INVALID")
			return
		}
		w.expectGated(pc, "SUB", topic, ch, 0)
	case "AUTH":
		secret := op.S2 + "/" + pc.key
		pc.cl.Cmd("AUTH", []byte(secret))
		switch {
		case tlsGate:
			w.expectFatal(pc, "AUTH", "E_INVALID")
		case pc.subscribed:
			w.expectFatal(pc, "AUTH while subscribed", "E_INVALID")
		case pc.authed:
			w.expectFatal(pc, "second AUTH", "E_INVALID")
		case len(w.stubs) == 0:
			w.expectFatal(pc, "AUTH", "E_AUTH_DISABLED")
		default:
			gs, ttl, ok := w.authAnswer(pc, op.S2)
			if !ok {
				w.expectFatal(pc, "AUTH "+op.S2, "E_AUTH_FAILED")
				return
			}
			if len(gs) == 0 {
				w.expectFatal(pc, "AUTH "+op.S2, "E_UNAUTHORIZED")
				return
			}
			f, ok2 := pc.cl.WaitFrame(30*time.Second, isNonMsg)
			var r struct {
				Identity string `json:"identity"`
				URL      string `json:"identity_url"`
				Count    int    `json:"permission_count"`
			}
			if !ok2 || f.Type != frameResponse || json.Unmarshal(f.Data, &r) != nil || r.Identity != op.S2 || r.Count != len(gs) {
				w.rc.Violate("C11", "wrong-answer", "AUTH %s: expected identity %q with %d permissions, got type=%d %q ok=%v", op.S2, op.S2, len(gs), f.Type, f.Data, ok2)
				return
			}
			pc.authed, pc.secret, pc.grants = true, op.S2, gs
			pc.expires = time.Now().Add(time.Duration(ttl) * time.Second)
			w.rc.Probe("auth_ok")
		}
	case "NOP":
		pc.cl.Cmd("NOP", nil)
		if tlsGate {
			w.expectFatal(pc, "NOP", "E_INVALID")
			return
		}
		w.expectSilence(pc, "NOP")
	case "RDY":
		pc.cl.Cmd(fmt.Sprintf("RDY %d", op.B), nil)
		if tlsGate || !pc.subscribed {
			w.expectFatal(pc, "RDY", "E_INVALID")
			return
		}
		w.expectSilence(pc, "RDY")
	case "CLS":
		pc.cl.Cmd("CLS", nil)
		if tlsGate || !pc.subscribed {
			w.expectFatal(pc, "CLS", "E_INVALID")
			return
		}
		f, ok := pc.cl.WaitFrame(30*time.Second, isNonMsg)
		if !ok || string(f.Data) != "CLOSE_WAIT" {
			w.rc.Violate("C11", "wrong-answer", "CLS on a subscribed connection: got type=%d %q ok=%v", f.Type, f.Data, ok)
			return
		}
		pc.cl.Close()
		pc.cl.WaitClosed(5 * time.Second)
		w.dropConn(pc)
	}
}

func (w *polWorld) expectSilence(pc *polConn, what string) {
	synctest.Wait()
	for _, f := range pc.cl.Drain() {
		if f.Type != frameMessage {
			w.rc.Violate("C11", "wrong-answer", "%s on connection %s (tls=%v): expected no answer, got type=%d %q", what, pc.key, pc.tls, f.Type, f.Data)
			return
		}
	}
	if pc.cl.Closed() {
		w.rc.Violate("C11", "wrong-answer", "%s on connection %s (tls=%v): connection was closed", what, pc.key, pc.tls)
	}
}

// ---------------------------------------------------------------- HTTP

func (w *polWorld) opHTTP(op Op, secure bool) {
	topic := polTopics[int(uint64(op.C)%3)]
	ch := polChannels[int(uint64(op.D)%3)]
	w.bodyN++
	body := []byte(fmt.Sprintf("h%05d", w.bodyN))
	method, path := "GET", "/ping"
	var reqBody []byte
	effect := func() {}
	wantStatus := 200
	switch op.B % 8 {
	case 0:
	case 1:
		path = "/stats?format=json"
	case 2:
		path = "/info"
	case 3:
		method, path, reqBody = "POST", "/pub?topic="+topic, body
		effect = func() { w.topic(topic).count++ }
	case 4:
		method, path, reqBody = "POST", "/mpub?topic="+topic, []byte(string(body)+"\n"+string(body)+"x")
		effect = func() { w.topic(topic).count += 2 }
	case 5:
		method, path = "POST", "/topic/create?topic="+topic
		effect = func() { w.topic(topic) }
	case 6:
		method, path = "POST", "/channel/create?topic="+topic+"&channel="+ch
		effect = func() { w.topic(topic).chans[ch] = true }
		if w.topics[topic] == nil {
			wantStatus = 404 // a channel can only be created on an existing topic
			effect = func() {}
		}
	case 7:
		method, path = "POST", "/topic/create?topic="+topic+"x"
		effect = func() { w.topic(topic + "x") }
	}
	if !secure {
		r := httpDo(w.rc, method, "127.0.0.1:4151", path, reqBody, nil, nil, 10*time.Second)
		if w.cfg.mode() == 2 {
			if r.Err != nil || r.Status != 403 || !bytes.Contains(r.Body, []byte("TLS_REQUIRED")) {
				w.rc.Violate("C11", "plaintext-http-not-refused", "TLS required: plaintext %s %s answered %d %q err=%v, expected 403 TLS_REQUIRED", method, path, r.Status, r.Body, r.Err)
				return
			}
			w.rc.Probe("http_403")
			return
		}
		if r.Err != nil || r.Status != wantStatus {
			w.rc.Violate("C11", "permitted-http-refused", "TLS mode %d: plaintext %s %s answered %d %q err=%v", w.cfg.mode(), method, path, r.Status, r.Body, r.Err)
			return
		}
		effect()
		w.rc.Probe("http_ok")
		return
	}
	if !w.cfg.Cert || w.cfg.NoHTTPS {
		return // no HTTPS listener
	}
	var cert *tls.Certificate
	switch op.A % 3 {
	case 1:
		cert = &w.certOK
	case 2:
		cert = &w.certSelf
	}
	shouldWork := true
	switch w.cfg.Policy {
	case "require":
		shouldWork = cert != nil
	case "require-verify":
		shouldWork = cert == &w.certOK
	}
	r := w.httpsDo(method, "127.0.0.1:4152", path, reqBody, cert)
	if shouldWork {
		if r.Err != nil || r.Status != wantStatus {
			w.rc.Violate("C11", "permitted-http-refused", "HTTPS %s %s (policy %q, cert %d) answered %d %q err=%v", method, path, w.cfg.Policy, op.A%3, r.Status, r.Body, r.Err)
			return
		}
		effect()
		w.rc.Probe("https_ok")
		return
	}
	if r.Err == nil {
		w.rc.Violate("C11", "client-cert-policy-bypassed", "HTTPS %s %s with certificate choice %d under policy %q answered %d", method, path, op.A%3, w.cfg.Policy, r.Status)
		return
	}
	w.rc.Probe("https_client_cert_refused")
}

func (w *polWorld) httpsDo(method, addr, pathq string, body []byte, cert *tls.Certificate) HTTPResp {
	var out HTTPResp
	c, err := w.rc.Net.DialFrom(nil, addr)
	if err != nil {
		out.Err = err
		return out
	}
	defer c.Close()
	c.SetLimitOut(0)
	c.SetDeadline(time.Now().Add(10 * time.Second))
	tcfg := &tls.Config{InsecureSkipVerify: true}
	if cert != nil {
		tcfg.Certificates = []tls.Certificate{*cert}
	}
	tc := tls.Client(c, tcfg)
	if err := tc.Handshake(); err != nil {
		out.Err = err
		return out
	}
	var rd io.Reader
	if body != nil {
		rd = bytes.NewReader(body)
	}
	req, err := http.NewRequest(method, "https://"+addr+pathq, rd)
	if err != nil {
		out.Err = err
		return out
	}
	req.Close = true
	if err := req.Write(tc); err != nil {
		out.Err = err
		return out
	}
	resp, err := http.ReadResponse(bufio.NewReader(tc), req)
	if err != nil {
		out.Err = err
		return out
	}
	b, err := io.ReadAll(resp.Body)
	resp.Body.Close()
	out.Status, out.Body, out.Err = resp.StatusCode, b, err
	return out
}

// ---------------------------------------------------------------- registry comparison

func (w *polWorld) checkRegistry(op Op) {
	st := w.n.GetStats("", "", false)
	got := map[string]string{}
	for _, ts := range st.Topics {
		var chs []string
		for _, cs := range ts.Channels {
			chs = append(chs, cs.ChannelName)
		}
		sort.Strings(chs)
		got[ts.TopicName] = fmt.Sprintf("channels=%v messages=%d", chs, ts.MessageCount)
	}
	want := map[string]string{}
	for t, pt := range w.topics {
		var chs []string
		for c := range pt.chans {
			chs = append(chs, c)
		}
		sort.Strings(chs)
		want[t] = fmt.Sprintf("channels=%v messages=%d", chs, pt.count)
	}
	var names []string
	for t := range got {
		names = append(names, t)
	}
	for t := range want {
		if _, ok := got[t]; !ok {
			names = append(names, t)
		}
	}
	sort.Strings(names)
	for _, t := range names {
		if got[t] != want[t] {
			class := "denied-command-left-trace"
			if want[t] != "" && got[t] == "" {
				class = "permitted-command-had-no-effect"
			}
			w.rc.Violate("C11", class, "after %s %s (step %d): topic %q is {%s} in nsqd, reference says {%s}", op.Kind, op.S, w.rc.step, t, got[t], want[t])
			return
		}
	}
}
