//go:build !race

package zzverif

const raceBuild = false

func collectRaces() []string { return nil }
