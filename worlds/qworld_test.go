package zzverif

import (
	"verifsim/simrt"
	"math/big"
	"bytes"
	"encoding/binary"
	"encoding/json"
	"fmt"
	"io"
	"net"
	"net/url"
	"os"
	"sort"
	"strings"
	"testing/synctest"
	"time"

	"github.com/nsqio/nsq/nsqd"

	"verifsim/simnet"
)

// QCfg is the drawn configuration of one queue-world run.
type QCfg struct {
	ClockSteps      bool     `json:"clock_steps,omitempty"`
	IDClockDrift    int      `json:"id_clock_drift,omitempty"` // one reading in N moves the id generator's clock one tick ahead (0 = never)
	Profile         string   `json:"profile"`
	MemQueueSize    int64    `json:"mem_queue_size"`
	MaxBytesPerFile int64    `json:"max_bytes_per_file"`
	SyncEvery       int64    `json:"sync_every"`
	MsgTimeoutMs    int64    `json:"msg_timeout_ms"`
	MaxMsgTimeoutMs int64    `json:"max_msg_timeout_ms"`
	MaxReqTimeoutMs int64    `json:"max_req_timeout_ms"`
	ScanIntervalMs  int64    `json:"scan_interval_ms"`
	ScanRefreshMs   int64    `json:"scan_refresh_ms"`
	ScanSelCount    int      `json:"scan_sel_count"`
	ScanWorkerMax   int      `json:"scan_worker_max"`
	MaxRdy          int64    `json:"max_rdy"`
	MaxMsgSize      int64    `json:"max_msg_size"`
	MaxBodySize     int64    `json:"max_body_size"`
	OBTMs           int64    `json:"output_buffer_timeout_ms"`
	ClientTimeoutMs int64    `json:"client_timeout_ms"`
	NodeID          int64    `json:"node_id"`
	Topics          []string `json:"topics"`
	Channels        []string `json:"channels"` // channel name pool
	YieldProb       uint32   `json:"yield_prob"`
	YieldPrefixes   []string `json:"yield_prefixes,omitempty"`
	LongProb        uint32   `json:"long_delay_prob,omitempty"` // x/65536 per yield site visit, at most one long delay per step
	LongSpin        int      `json:"long_delay_spin,omitempty"` // how many rounds the delayed goroutine stays behind all others
	ShortReads      int      `json:"short_reads"` // 0 off, else 1/n chance to cut a read
	TLS             bool     `json:"tls"`
	TopicDiskFaults int      `json:"topic_disk_faults,omitempty"` // one in N writes to a topic's queue file fails (0 = never)
	UnixSocket      bool     `json:"unix_socket,omitempty"` // nsqd's client port is a unix-domain socket
	DeadLookupd     int      `json:"dead_lookupd,omitempty"` // an nsqlookupd is configured that 1: accepts and never answers, 2: is not there
	E2E             bool     `json:"e2e_percentiles,omitempty"` // --e2e-processing-latency-percentile given (quantile streams on every topic and channel)
	Topology        bool     `json:"topology_aware,omitempty"` // --enable-experiment=topology-aware-consumption with region/zone set
	Steer           []SteerRule `json:"steer,omitempty"`
	NoDrain         bool     `json:"no_drain,omitempty"`
	Restarts        int      `json:"restarts,omitempty"`
}

type SteerRule struct {
	Hold    string `json:"hold"`
	Until   string `json:"until"`
	MaxSpin int    `json:"max_spin"`
	Nth     int    `json:"nth,omitempty"`
}

type pubRec struct {
	Key      string
	N        int // publish sequence number
	Topic    string
	Via      string
	Acked    bool
	Rejected bool
	Unknown  bool // no answer observed (connection lost): may or may not exist
	SendSeq  uint64
	AckSeq   uint64
	SendAt   time.Time
	AckAt    time.Time
	SendStep int
	DeferMs  int64
	ID       string
	TS       int64
	Conn     int // publisher connection index (-1 for HTTP)
	Batch    int // batch id for MPUB (0 = single)
	BatchPos int
	// channels that were known to exist (creation acknowledged) when the publish was sent
	ChansAtPub []string
	TopicPausedAtSend bool
	lifetime   int
	topicEpoch int
}

type delivery struct {
	mc        *msgChan
	cons      *consumer
	Att       uint16
	At        time.Time
	Seq       uint64
	Step      int
	Answer    string // "", "fin", "req"
	AnsAt     time.Time
	AnsStep   int
	AnsOK     bool
	AnsKnown  bool
	ReqDelay  time.Duration
	Touches   []time.Time // accepted touches
	pendingTouch []time.Time
	touchStep    int // epoch of the latest TOUCH sent for this delivery
	Voided    bool // channel emptied / deleted after this delivery
	lifetime    int
	fateUnknown bool
	maybeAnswered bool
}

type msgChan struct {
	pub   *pubRec
	ck    string
	dels  []*delivery
	fin      bool
	finMaybe bool
	cmdAt    map[*consumer]time.Time // last time a connection sent a command naming this message
	finAt    time.Time
	epoch    int
}

type chanModel struct {
	notListedBefore time.Time // the daemon's object for this channel was created at or before this instant (zero: not known)
	Topic, Name string
	Key         string
	Exists      bool
	CreatedSeq  uint64
	CreatedStep int
	Paused      bool
	PausedStep  int
	Ephemeral   bool
	Epoch       int    // bumped by empty/delete
	VoidSeq     uint64 // seq of the last empty/delete request
	VoidStep    int
	Sampled     bool // a sampling consumer ever subscribed: exempt from conservation
	ConnEnds    []int // steps at which a consumer connection of this channel ended
	lastConnEnd time.Time
	msgs        map[string]*msgChan
	// stats bookkeeping (this incarnation)
	Fins, Reqs  int64
	Tainted     bool // exact stats laws no longer known (racing empty, sampling, ...)
	Discarded   int64
	Uncertain   bool // creation/deletion raced something: existence unknown
	pendingVoid bool
	lastDeleteStep int
	hadConsumer bool
	VoidAt      time.Time
	unpausedAt  time.Time
	Unordered   bool // a consumer with unbounded output buffering: receipt order is not send order
	discarded   map[string]int // pub key -> step at which the discard was acknowledged
	discardedAt map[string]time.Time
	ephemeralGone bool
}

type topicModel struct {
	Name      string
	Exists    bool
	Paused    bool
	PauseStep int
	Ephemeral bool
	AckedMsgs int64
	AckedBytes int64
	UnknownMsgs int64
	UnknownBytes int64
	Epoch     int
	VoidSeq   uint64
	VoidStep  int
	Tainted   bool
	CreatedStep int
	ExistUnknown bool
	pauseSteps  []int
	discarded   map[string]int
	discardedAt map[string]time.Time
	ephemeralGone bool
}

type consumer struct {
	Idx      int
	cl       *V2Client
	ck       string
	Topic    string
	Channel  string
	Rdy      int64
	RdyStep  int   // step of the last RDY change
	RdyPrev  int64 // value before the last change
	MsgTimeout time.Duration
	ConnAt   time.Time
	OBT      time.Duration // output buffer timeout in effect; -1 = buffered without timeout
	Unbuffered bool
	Sample   int
	Closing  bool
	ClsStep  int
	Dead     bool // harness closed it or it was observed closed
	DeadStep int
	Dels     []*delivery // all deliveries to this connection
	Fins, Reqs int64
	Subscribed bool
	SubStep  int
	expectClose     bool
	expectCloseStep int
	rdyStepMax      int64
	fatalSent       bool
}

type qWorld struct {
	rc   *RunCtx
	cfg  QCfg
	n    *nsqd.NSQD
	opts *nsqd.Options
	tcpAddr, httpAddr string
	pubs    map[string]*pubRec
	pubList []*pubRec
	chans   map[string]*chanModel
	topics  map[string]*topicModel
	cons    []*consumer
	pubConns []*V2Client
	nextBody int
	nextBatch int
	pending  []func() // completions of the current burst
	inBurst  bool
	burstStart int
	enforce  map[string]bool
	mainDone chan error
	lastAdvance time.Duration
	idsByTopic map[string]map[string]*pubRec
	statsOK  int
	lifetime int
	stale    []*staleCmd
	epoch    int // settle epoch: operations between two settles are concurrent
	badRdy   []*consumer
	badReq   []*consumer
	stolenAtExit int64
	readyAtExit  map[string]bool
	lastRestartAt time.Time
	steering  bool      // yield rules installed by the current operation (removed after its settle)
	tinyUsed  map[string]bool
	mainStart time.Time // when the current daemon's Main (and its scan ticker) started
	burstOps []Op
	burstAdmin map[string]int // status of the administrative calls of the current burst
	lastStats *statsDoc
}

func (w *qWorld) violate(prop, class, format string, a ...interface{}) {
	if !w.enforce[prop] {
		w.rc.Logf("(not enforced here) %s %s: %s", prop, class, fmt.Sprintf(format, a...))
		w.rc.Probe("other_prop_signal_" + prop)
		return
	}
	w.rc.Violate(prop, class, format, a...)
}

func ms(n int64) time.Duration { return time.Duration(n) * time.Millisecond }

func (w *qWorld) newOptions() *nsqd.Options {
	c := w.cfg
	o := nsqd.NewOptions()
	o.Logger = &simLogger{rc: w.rc, name: "nsqd"}
	o.LogLevel = 2 // INFO
	o.TCPAddress = "127.0.0.1:4150"
	if c.DeadLookupd > 0 {
		// every registration command runs into its one-second deadline: whatever waits for the lookup loop
		// (the metadata write after a creation, the subsystems' wait group at shutdown) takes that much longer
		o.NSQLookupdTCPAddresses = []string{"127.0.0.1:4160"}
	}
	if c.UnixSocket {
		o.TCPAddress = "/sim/nsqd.sock" // clients connect through a unix-domain socket: they all have the same (unnamed) address
	}
	o.HTTPAddress = "127.0.0.1:4151"
	o.HTTPSAddress = "127.0.0.1:4152"
	o.BroadcastAddress = "127.0.0.1"
	o.DataPath = w.rc.Dir
	o.ID = c.NodeID
	o.MemQueueSize = c.MemQueueSize
	o.MaxBytesPerFile = c.MaxBytesPerFile
	o.SyncEvery = c.SyncEvery
	o.SyncTimeout = 2 * time.Second
	o.MsgTimeout = ms(c.MsgTimeoutMs)
	o.MaxMsgTimeout = ms(c.MaxMsgTimeoutMs)
	o.MaxReqTimeout = ms(c.MaxReqTimeoutMs)
	o.QueueScanInterval = ms(c.ScanIntervalMs)
	o.QueueScanRefreshInterval = ms(c.ScanRefreshMs)
	o.QueueScanSelectionCount = c.ScanSelCount
	o.QueueScanWorkerPoolMax = c.ScanWorkerMax
	o.MaxRdyCount = c.MaxRdy
	o.MaxMsgSize = c.MaxMsgSize
	o.MaxBodySize = c.MaxBodySize
	o.OutputBufferTimeout = ms(c.OBTMs)
	o.ClientTimeout = ms(c.ClientTimeoutMs)
	o.MaxHeartbeatInterval = 60 * time.Second
	if c.E2E {
		o.E2EProcessingLatencyPercentiles = []float64{0.99, 0.5}
		o.E2EProcessingLatencyWindowTime = 2 * time.Second
	}
	if c.Topology {
		o.TopologyRegion, o.TopologyZone = "r1", "z1"
		o.Experiments = []string{"topology-aware-consumption"}
	}
	if c.TLS {
		o.TLSCert = "/repo/nsqd/test/certs/server.pem"
		o.TLSKey = "/repo/nsqd/test/certs/server.key"
	}
	return o
}

func (w *qWorld) startNSQD() error {
	w.opts = w.newOptions()
	n, err := nsqd.New(w.opts)
	if err != nil {
		return fmt.Errorf("nsqd.New: %v", err)
	}
	if err := n.LoadMetadata(); err != nil {
		return fmt.Errorf("LoadMetadata: %v", err)
	}
	if err := n.PersistMetadata(); err != nil {
		return fmt.Errorf("PersistMetadata: %v", err)
	}
	w.n = n
	w.mainDone = make(chan error, 1)
	go func() { w.mainDone <- n.Main() }()
	w.mainStart = time.Now()
	for _, c := range w.chans {
		c.notListedBefore = w.mainStart
	}
	w.tcpAddr = "127.0.0.1:4150"
	if w.cfg.UnixSocket {
		w.tcpAddr = "/sim/nsqd.sock"
	}
	w.httpAddr = "127.0.0.1:4151"
	w.lifetime++
	synctest.Wait()
	return nil
}

// startDeadLookupd: a listener that takes connections and whatever is written to them and never answers.
func (w *qWorld) startDeadLookupd() {
	ln, err := w.rc.Net.Listen("tcp", "127.0.0.1:4160")
	if err != nil {
		return
	}
	var conns []net.Conn
	go func() {
		for {
			c, err := ln.Accept()
			if err != nil {
				return
			}
			conns = append(conns, c)
			w.rc.Fault("lookupd_black_hole_conn")
			go io.Copy(io.Discard, c)
		}
	}()
	w.rc.Defer(func() {
		ln.Close()
		for _, c := range conns {
			c.Close()
		}
	})
}

func (w *qWorld) stopNSQD() {
	if w.n == nil {
		return
	}
	w.n.Exit()
	w.n = nil
	synctest.Wait()
}

// ---------------------------------------------------------------- bodies

func (w *qWorld) makeBody(r *PRNG, sizeClass int64, textSafe bool) []byte {
	if sizeClass == 5 {
		// the shortest bodies there are: one byte (two when the single bytes are used up). The ledger tells
		// messages apart by their body, so every such body is used once per run.
		if w.tinyUsed == nil {
			w.tinyUsed = map[string]bool{}
		}
		for tries := 0; tries < 600; tries++ {
			b := []byte{byte(r.Intn(256))}
			if len(w.tinyUsed) >= 200 {
				b = append(b, byte(r.Intn(256)))
			}
			if textSafe && (bytes.IndexByte(b, '\n') >= 0) {
				continue
			}
			if !w.tinyUsed[string(b)] && w.pubs[string(b)] == nil {
				w.tinyUsed[string(b)] = true
				w.nextBody++
				return b
			}
		}
	}
	w.nextBody++
	hdr := fmt.Sprintf("m%06d|", w.nextBody)
	var n int
	switch sizeClass {
	case 0:
		n = r.Range(0, 12)
	case 1:
		n = r.Range(13, 200)
	case 2:
		n = r.Range(201, 2000)
	case 3: // near max msg size
		n = int(w.cfg.MaxMsgSize) - len(hdr) - r.Range(0, 2)
	case 4: // adversarial content
		n = r.Range(1, 300)
	default:
		n = r.Range(0, 40)
	}
	if n < 0 {
		n = 0
	}
	b := make([]byte, 0, len(hdr)+n)
	b = append(b, hdr...)
	adversarial := [][]byte{[]byte("\n"), []byte("\x00"), []byte("  V2"), []byte("FIN 0123456789abcdef\n"),
		{0, 0, 0, 6, 0, 0, 0, 2}, []byte("\r\n"), {0xff, 0xfe}, []byte("MPUB t\n")}
	for len(b) < len(hdr)+n {
		if sizeClass == 4 && r.Chance(1, 3) {
			b = append(b, adversarial[r.Intn(len(adversarial))]...)
			continue
		}
		if sizeClass == 4 || r.Chance(1, 8) {
			b = append(b, byte(r.Intn(256)))
		} else {
			b = append(b, byte('a'+r.Intn(26)))
		}
	}
	b = b[:len(hdr)+n]
	if textSafe {
		for i := range b {
			if b[i] == '\n' {
				b[i] = '~'
			}
		}
	}
	return b
}

func (w *qWorld) topicName(i int64) string {
	return w.cfg.Topics[int(uint64(i)%uint64(len(w.cfg.Topics)))]
}
func (w *qWorld) chanName(i int64) string {
	return w.cfg.Channels[int(uint64(i)%uint64(len(w.cfg.Channels)))]
}

func (w *qWorld) topic(name string) *topicModel {
	t := w.topics[name]
	if t == nil {
		t = &topicModel{Name: name, Ephemeral: strings.HasSuffix(name, "#ephemeral"), discarded: map[string]int{}, discardedAt: map[string]time.Time{}}
		w.topics[name] = t
	}
	return t
}

func (w *qWorld) channel(topic, name string) *chanModel {
	k := topic + "/" + name
	c := w.chans[k]
	if c == nil {
		c = &chanModel{Topic: topic, Name: name, Key: k, Ephemeral: strings.HasSuffix(name, "#ephemeral"), msgs: map[string]*msgChan{}, discarded: map[string]int{}, discardedAt: map[string]time.Time{}}
		w.chans[k] = c
	}
	return c
}

func (w *qWorld) sortedChanKeys() []string {
	ks := make([]string, 0, len(w.chans))
	for k := range w.chans {
		ks = append(ks, k)
	}
	sort.Strings(ks)
	return ks
}

// markTopicCreated / markChannelCreated record an acknowledged creation.
func (w *qWorld) markTopicCreated(name string) {
	t := w.topic(name)
	if !t.Exists {
		t.Exists = true
		t.CreatedStep = w.epoch
		t.AckedMsgs, t.AckedBytes, t.UnknownMsgs, t.UnknownBytes = 0, 0, 0, 0
		t.Paused = false
		// a publish of unknown outcome may have created it earlier: its counters are then not known exactly
		t.Tainted = w.inBurst || t.ExistUnknown
		t.ExistUnknown = false
	}
}

func (w *qWorld) markChannelCreated(topic, name string) {
	w.markTopicCreated(topic)
	c := w.channel(topic, name)
	if !c.Exists {
		c.Exists = true
		c.CreatedSeq = w.rc.Net.NextSeq()
		c.CreatedStep = w.epoch
		c.notListedBefore = time.Now()
		c.Paused = false
		c.Fins, c.Reqs, c.Discarded = 0, 0, 0
		c.Tainted = w.inBurst
		c.Sampled = false
		c.hadConsumer = false
		c.Unordered = false
		c.msgs = map[string]*msgChan{}
	}
}

// ---------------------------------------------------------------- op execution

func (w *qWorld) pubConn(i int64) (*V2Client, int) {
	if len(w.pubConns) == 0 {
		w.pubConns = make([]*V2Client, 3)
	}
	idx := int(uint64(i) % uint64(len(w.pubConns)))
	c := w.pubConns[idx]
	if c == nil || c.Closed() {
		nc, err := dialV2(w.rc, fmt.Sprintf("pub%d", idx), w.tcpAddr, "  V2")
		if err != nil {
			return nil, idx
		}
		nc.Start()
		w.pubConns[idx] = nc
		c = nc
	}
	return c, idx
}

// knownChannels lists channels of topic whose creation was acknowledged and
// that are not deleted (and not in doubt).
func (w *qWorld) knownChannels(topic string) []string {
	var out []string
	for _, k := range w.sortedChanKeys() {
		c := w.chans[k]
		if c.Topic == topic && c.Exists && !c.Uncertain {
			out = append(out, c.Name)
		}
	}
	return out
}

func (w *qWorld) recordPub(body []byte, topic, via string, conn int, deferMs int64, batch, pos int) *pubRec {
	p := &pubRec{Key: string(body), N: w.nextBody, Topic: topic, Via: via, Conn: conn, DeferMs: deferMs, lifetime: w.lifetime, topicEpoch: w.topic(topic).Epoch,
		SendSeq: w.rc.Net.NextSeq(), SendAt: time.Now(), SendStep: w.epoch, Batch: batch, BatchPos: pos}
	p.ChansAtPub = w.knownChannels(topic)
	if t := w.topics[topic]; t != nil && t.Exists && t.Paused {
		p.TopicPausedAtSend = true
	}
	w.pubs[p.Key] = p
	w.pubList = append(w.pubList, p)
	return p
}

func (w *qWorld) ackPubs(ps []*pubRec, ok bool, unknown bool) {
	if !ok && !unknown && len(ps) > 1 && w.cfg.TopicDiskFaults > 0 {
		// a multi-publish that failed on a disk error may have enqueued a prefix of the batch
		unknown = true
	}
	for _, p := range ps {
		p.AckSeq = w.rc.Net.NextSeq()
		p.AckAt = time.Now()
		t := w.topic(p.Topic)
		switch {
		case unknown:
			p.Unknown = true
			t.UnknownMsgs++
			t.UnknownBytes += int64(len(p.Key))
			if !t.Exists {
				t.ExistUnknown = true
			}
		case ok:
			p.Acked = true
			if !t.Exists {
				w.markTopicCreated(p.Topic)
			}
			t.AckedMsgs++
			t.AckedBytes += int64(len(p.Key))
		default:
			p.Rejected = true
			// a refused publish may nevertheless have created the topic
			// (MPUB and HTTP publishes look the topic up before validating the body)
			if !t.Exists {
				t.ExistUnknown = true
			}
		}
	}
}

func mpubBody(bodies [][]byte) []byte {
	var buf bytes.Buffer
	binary.Write(&buf, binary.BigEndian, int32(len(bodies)))
	for _, b := range bodies {
		binary.Write(&buf, binary.BigEndian, int32(len(b)))
		buf.Write(b)
	}
	return buf.Bytes()
}

// opPub issues one publish operation; the returned func completes it.
func (w *qWorld) opPub(op Op) func() {
	r := NewPRNG(w.rc.Seed*31 + uint64(op.Uid)*977 + 5)
	topic := w.topicName(op.B)
	kind := op.C
	n := int(op.D)
	if n < 1 {
		n = 1
	}
	sizeClass := op.A >> 8
	connSel := op.A & 0xff
	switch kind {
	case 0, 2: // PUB / DPUB over TCP
		c, idx := w.pubConn(connSel)
		onConsumer := false
		if op.S == "cotopic" {
			// to the topic of the selected consumer (so that it has output buffered)
			if co := w.liveConsumer(connSel); co != nil {
				topic = co.Topic
			}
		} else if connSel >= 3 {
			// publish over a subscribed consumer connection: responses and
			// message frames then share one output stream
			if co := w.liveConsumer(connSel); co != nil && co.Subscribed && !co.Closing {
				c, idx, onConsumer = co.cl, 100+co.Idx, true
				w.rc.Probe("pub_on_consumer_connection")
			}
		}
		if c == nil {
			return nil
		}
		body := w.makeBody(r, sizeClass, false)
		var deferMs int64
		line := "PUB " + topic
		expect := 0 // 0 no expectation, 1 must be accepted, -1 must be refused
		spellS := ""
		if kind == 2 {
			deferMs = op.D
			spell := fmt.Sprintf("%d", deferMs)
			if op.S2 != "" {
				spell = op.S2
			}
			spellS = spell
			deferMs, expect = w.expectDefer(spell, false)
			line = "DPUB " + topic + " " + spell
		}
		if onConsumer && op.S == "tick" {
			// send at the very instant the connection's output-buffer timer fires
			if co := w.liveConsumer(connSel); co != nil {
				if d := co.untilTick(); d > 0 && d <= 5*time.Millisecond {
					time.Sleep(d)
					w.rc.Probe("command_at_flush_tick")
				}
			}
		}
		p := w.recordPub(body, topic, "tcp", idx, deferMs, 0, 0)
		c.Cmd(line, body)
		if onConsumer {
			return func() { w.completeConsumerPub(c, []*pubRec{p}); w.checkDeferOutcome(p, expect, "DPUB", spellS, len(body)) }
		}
		return func() { w.completeTCPPub(c, []*pubRec{p}); w.checkDeferOutcome(p, expect, "DPUB", spellS, len(body)) }
	case 1: // MPUB over TCP
		c, idx := w.pubConn(connSel)
		if c == nil {
			return nil
		}
		w.nextBatch++
		var bodies [][]byte
		var ps []*pubRec
		for i := 0; i < n; i++ {
			b := w.makeBody(r, sizeClass, false)
			bodies = append(bodies, b)
			ps = append(ps, w.recordPub(b, topic, "tcp-mpub", idx, 0, w.nextBatch, i))
		}
		c.Cmd("MPUB "+topic, mpubBody(bodies))
		return func() { w.completeTCPPub(c, ps) }
	case 3, 6: // HTTP /pub (6: with defer)
		body := w.makeBody(r, sizeClass, false)
		if op.S == "abort" && len(body) > 2 {
			// an upload that breaks off: Content-Length announces the whole body, the
			// connection ends after a part of it. Nothing was published, so nothing
			// of it may ever be delivered (the part is a body nobody published).
			cut := 1 + r.Intn(len(body)-1)
			raw := fmt.Sprintf("POST /pub?topic=%s HTTP/1.1\r\nHost: nsqd\r\nContent-Length: %d\r\n\r\n", url.QueryEscape(topic), len(body))
			if c, err := w.rc.Net.DialFrom(nil, w.httpAddr); err == nil {
				c.SetLimitOut(0)
				c.Write(append([]byte(raw), body[:cut]...))
				if r.Chance(1, 2) {
					c.Close()
				} else {
					c.Reset()
				}
				w.rc.Fault("http_upload_aborted")
			}
			return nil
		}
		var deferMs int64
		q := "/pub?topic=" + url.QueryEscape(topic)
		expect := 0
		spellS := ""
		if kind == 6 {
			deferMs = op.D
			spell := fmt.Sprintf("%d", deferMs)
			if op.S2 != "" {
				spell = op.S2
			}
			spellS = spell
			deferMs, expect = w.expectDefer(spell, true)
			q += "&defer=" + url.QueryEscape(spell)
		}
		p := w.recordPub(body, topic, "http", -1, deferMs, 0, 0)
		done := w.httpPub(q, body, []*pubRec{p})
		return func() { done(); w.checkDeferOutcome(p, expect, "/pub defer", spellS, len(body)) }
	case 4, 5: // HTTP /mpub text, binary
		w.nextBatch++
		var bodies [][]byte
		var ps []*pubRec
		for i := 0; i < n; i++ {
			b := w.makeBody(r, sizeClass, kind == 4)
			bodies = append(bodies, b)
			ps = append(ps, w.recordPub(b, topic, "http-mpub", -1, 0, w.nextBatch, i))
		}
		q := "/mpub?topic=" + url.QueryEscape(topic)
		var payload []byte
		if kind == 4 {
			payload = bytes.Join(bodies, []byte("\n"))
			if r.Chance(1, 2) {
				payload = append(payload, '\n')
			}
		} else {
			q += "&binary=true"
			payload = mpubBody(bodies)
		}
		return w.httpPub(q, payload, ps)
	}
	return nil
}

func (w *qWorld) completeTCPPub(c *V2Client, ps []*pubRec) {
	f, ok := c.WaitFrame(60*time.Second, isNonMsg)
	switch {
	case !ok:
		w.rc.Logf("pub on %s: no answer (closed=%v)", c.Name, c.Closed())
		w.ackPubs(ps, false, true)
	case f.Type == frameResponse && string(f.Data) == "OK":
		w.ackPubs(ps, true, false)
	default:
		w.rc.Logf("pub on %s rejected: %s", c.Name, f.Data)
		w.ackPubs(ps, false, false)
	}
}

// completeConsumerPub: the answer to a publish sent over a consumer connection
// (the other non-message frames there belong to FIN/REQ/TOUCH commands).
func (w *qWorld) completeConsumerPub(c *V2Client, ps []*pubRec) {
	f, ok := c.WaitFrame(60*time.Second, func(f Frame) bool {
		if f.Type == frameResponse {
			return string(f.Data) == "OK"
		}
		if f.Type == frameError {
			switch errCode(f.Data) {
			case "E_FIN_FAILED", "E_REQ_FAILED", "E_TOUCH_FAILED":
				return false
			}
			return true
		}
		return false
	})
	switch {
	case !ok:
		w.rc.Logf("pub on %s: no answer (closed=%v)", c.Name, c.Closed())
		w.ackPubs(ps, false, true)
	case f.Type == frameResponse:
		w.ackPubs(ps, true, false)
	case !strings.Contains(string(f.Data), "PUB "):
		// a fatal error that answers another command of this connection
		w.rc.Logf("pub on %s: connection failed first: %s", c.Name, f.Data)
		w.ackPubs(ps, false, true)
	default:
		w.rc.Logf("pub on %s rejected: %s", c.Name, f.Data)
		w.ackPubs(ps, false, false)
	}
}

func (w *qWorld) httpPub(pathq string, payload []byte, ps []*pubRec) func() {
	done := make(chan HTTPResp, 1)
	go func() { done <- httpDo(w.rc, "POST", w.httpAddr, pathq, payload, nil, nil, 120*time.Second) }()
	return func() {
		resp := <-done
		switch {
		case resp.Err != nil:
			w.rc.Logf("http pub error: %v", resp.Err)
			w.ackPubs(ps, false, true)
		case resp.Status == 200:
			w.ackPubs(ps, true, false)
		default:
			w.rc.Logf("http pub %s -> %d %s", pathq, resp.Status, resp.Body)
			w.ackPubs(ps, false, false)
		}
	}
}

// opSub connects a new consumer: IDENTIFY, SUB, RDY.
func (w *qWorld) opSub(op Op) {
	topic, ch := w.topicName(op.A), w.chanName(op.B)
	cl, err := dialV2(w.rc, fmt.Sprintf("cons%d", len(w.cons)), w.tcpAddr, "  V2")
	if err != nil {
		w.rc.Logf("sub dial: %v", err)
		return
	}
	co := &consumer{Idx: len(w.cons), cl: cl, Topic: topic, Channel: ch, ck: topic + "/" + ch,
		MsgTimeout: ms(w.cfg.MsgTimeoutMs), OBT: ms(w.cfg.OBTMs), ConnAt: time.Now()}
	w.cons = append(w.cons, co)
	flags := op.D
	opts := map[string]interface{}{"client_id": cl.Name, "hostname": "sim", "feature_negotiation": true, "user_agent": "verif"}
	if w.cfg.Topology {
		// same zone, same region other zone, other region, or no topology at all
		switch (op.D >> 21) & 3 {
		case 0:
			opts["topology_region"], opts["topology_zone"] = "r1", "z1"
		case 1:
			opts["topology_region"], opts["topology_zone"] = "r1", "z2"
		case 2:
			opts["topology_region"], opts["topology_zone"] = "r2", "z9"
		}
	}
	switch flags & 3 {
	case 1:
		opts["output_buffer_size"] = -1
		co.Unbuffered = true
		co.OBT = 0
	case 2:
		t := int64(25 + (flags>>8)%200)
		opts["output_buffer_timeout"] = t
		co.OBT = ms(t)
	case 3:
		opts["output_buffer_timeout"] = -1
		co.OBT = -1
	}
	if (flags>>2)&1 == 1 {
		mt := 1000 + (flags>>16)%int64(w.cfg.MaxMsgTimeoutMs-999)
		opts["msg_timeout"] = mt
		co.MsgTimeout = ms(mt)
	}
	if (flags>>3)&1 == 1 {
		opts["heartbeat_interval"] = 1000 + (flags>>24)%5000
	}
	if (flags>>4)&1 == 1 {
		co.Sample = int(1 + (flags>>32)%99)
		opts["sample_rate"] = co.Sample
	}
	switch (flags >> 5) & 3 {
	case 1:
		opts["snappy"] = true
	case 2:
		opts["deflate"] = true
		opts["deflate_level"] = 1 + (flags>>40)%9
	}
	if (flags>>7)&1 == 1 && w.cfg.TLS {
		opts["tls_v1"] = true
	}
	if opts["deflate"] == true && co.OBT <= 0 {
		// nsqd only flushes the deflate stream when it flushes the connection:
		// without a flush timer frames can be withheld indefinitely
		co.Unbuffered = false
		co.OBT = -1
	}
	if _, err := cl.Identify(opts, nil); err != nil {
		w.rc.Logf("identify failed: %v", err)
		co.Dead = true
		co.DeadStep = w.epoch
		cl.Close()
		return
	}
	// Let nsqd apply the negotiated settings before anything else is sent: its
	// delivery pump learns them through a one-slot event channel, and a message
	// it hands out before consuming that event uses the defaults (msg_timeout,
	// sample rate, ...). A client that waits for the IDENTIFY response, as the
	// protocol requires for feature negotiation, gives the pump a network round
	// trip to do so; here that is a quiescence point. (DESIGN.md, observations.)
	synctest.Wait()
	cl.Start()
	if op.S == "raceclose" {
		// the other consumers of this topic leave at the very moment this one
		// subscribes (for an ephemeral topic: its deletion races the SUB)
		if strings.HasSuffix(topic, "#ephemeral") && op.D&(1<<20) != 0 {
			// steer: the topic's deletion pauses between emptying the topic and
			// unlinking it until somebody looks the topic up
			w.rc.Sched.Rules = []*simrt.Rule{
				{Hold: "nsqd.NSQD.DeleteExistingTopic#3", Until: "nsqd.NSQD.GetTopic#0", MaxSpin: 300},
				{Hold: "nsqd.NSQD.GetTopic#0", Until: "nsqd.NSQD.DeleteExistingTopic#3", MaxSpin: 300, OneShot: true},
			}
			w.steering = true
			w.rc.Probe("steered_subscribe_vs_topic_unlink")
		}
		for _, x := range w.cons {
			if x != co && x.Topic == topic && x.Subscribed && !x.Dead {
				w.rc.Logf("closing %s while %s subscribes", x.cl.Name, cl.Name)
				x.cl.Close()
				w.rc.Fault("conn_close")
				w.consumerDied(x)
				w.inBurst = true
				w.burstOps = append(w.burstOps, Op{Kind: "close"})
				w.rc.Probe("subscribe_racing_last_consumer_leaving")
			}
		}
	}
	cl.Cmd("SUB "+topic+" "+ch, nil)
	f, ok := cl.WaitFrame(30*time.Second, isNonMsg)
	if !ok || f.Type != frameResponse || string(f.Data) != "OK" {
		w.rc.Logf("SUB %s %s failed: ok=%v %q", topic, ch, ok, f.Data)
		if !ok || f.Type == frameError {
			co.Dead = true
			co.DeadStep = w.epoch
			if !ok {
				// no answer (the connection was closed, e.g. by a channel deletion
				// that caught it): the server side of the SUB may still be in its
				// retry pause (100 ms) and create the topic/channel afterwards
				cl.Close()
				time.Sleep(150 * time.Millisecond)
				synctest.Wait()
				w.rc.Probe("subscribe_unanswered")
			}
			// a failed SUB may or may not have created the topic/channel
			if c := w.chans[co.ck]; c == nil || !c.Exists {
				w.channel(topic, ch).Uncertain = true
			}
			if t := w.topic(topic); !t.Exists {
				t.ExistUnknown = true
			}
		}
		return
	}
	co.Subscribed = true
	co.SubStep = w.epoch
	w.rc.Logf("%s subscribed to %s rdy=%d unbuf=%v obt=%v msgTimeout=%v sample=%d opts=%v", cl.Name, co.ck, op.C, co.Unbuffered, co.OBT, co.MsgTimeout, co.Sample, opts)
	w.markChannelCreated(topic, ch)
	cm := w.channel(topic, ch)
	cm.Uncertain = false
	cm.hadConsumer = true
	if co.Sample > 0 {
		cm.Sampled = true
		cm.Tainted = true
	}
	if _, bounded := co.slack(); !bounded {
		cm.Unordered = true
	}
	if op.C > 0 {
		w.setRdy(co, op.C)
	}
}

func (w *qWorld) setRdy(co *consumer, n int64) {
	w.rc.Logf("%s RDY %d", co.cl.Name, n)
	co.RdyPrev = co.Rdy
	if co.Rdy > co.rdyStepMax {
		co.rdyStepMax = co.Rdy
	}
	if n > co.rdyStepMax {
		co.rdyStepMax = n
	}
	co.Rdy = n
	co.RdyStep = w.epoch
	co.cl.Cmd(fmt.Sprintf("RDY %d", n), nil)
}

// untilTick: time until the next firing of the connection's output-buffer
// ticker (started when the connection was set up), 0 if there is none.
func (co *consumer) untilTick() time.Duration {
	if co.OBT <= 0 {
		return 0
	}
	return co.OBT - time.Since(co.ConnAt)%co.OBT
}

func (w *qWorld) liveConsumer(i int64) *consumer {
	var live []*consumer
	for _, c := range w.cons {
		if c.Subscribed && !c.Dead {
			live = append(live, c)
		}
	}
	if len(live) == 0 {
		return nil
	}
	return live[int(uint64(i)%uint64(len(live)))]
}

// heldOf lists the deliveries to co that the client has not answered and that
// are the latest delivery of their message on the channel (commands name a
// message by id, so an answer always concerns the latest delivery).
func heldOf(co *consumer) []*delivery {
	var out []*delivery
	for _, d := range co.Dels {
		if d.Answer == "" && !d.Voided && d.mc.dels[len(d.mc.dels)-1] == d {
			out = append(out, d)
		}
	}
	return out
}

func (w *qWorld) opAnswer(op Op) {
	co := w.liveConsumer(op.A)
	if co == nil {
		return
	}
	var d *delivery
	if op.Kind == "stale" {
		// answer for something this connection does not hold: an already
		// answered delivery, or one that belongs to another connection
		var cands []*delivery
		for _, o := range w.cons {
			if o.ck != co.ck {
				continue
			}
			for _, x := range o.Dels {
				cands = append(cands, x)
			}
		}
		if len(cands) == 0 {
			return
		}
		d = cands[int(uint64(op.B)%uint64(len(cands)))]
		if w.currentHolder(d.mc) == co || d.mc.pub.ID == "" {
			return
		}
		for _, x := range heldOf(co) {
			if x.mc.pub.ID == d.mc.pub.ID {
				// the same message reached this connection in a later incarnation of the channel (a leftover
				// queue file of a durable channel on an ephemeral topic survives a restart): not stale at all
				return
			}
		}
		w.sendStale(co, d, op.C)
		return
	}
	held := heldOf(co)
	if len(held) == 0 {
		return
	}
	d = held[int(uint64(op.B)%uint64(len(held)))]
	id := d.mc.pub.ID
	if op.S == "atdeadline" {
		// answer at the very instant nsqd's scan finds the message timed out:
		// the first scan tick at or after the deadline
		if dl, ok := w.deadlineLower(d); ok && !w.mainStart.IsZero() {
			si := ms(w.cfg.ScanIntervalMs)
			k := (dl.Sub(w.mainStart) + si - 1) / si
			tick := w.mainStart.Add(k * si)
			if wait := time.Until(tick); wait > 0 && wait < 2*time.Minute {
				time.Sleep(wait)
				w.inBurst = true
				w.rc.Probe("answer_at_timeout_scan")
			}
		}
	}
	w.rc.Logf("%s %s m%06d (att %d)", co.cl.Name, op.Kind, d.mc.pub.N, d.Att)
	d.mc.noteCmd(co)
	switch op.Kind {
	case "fin":
		d.Answer, d.AnsAt, d.AnsStep = "fin", time.Now(), w.epoch
		co.cl.Cmd("FIN "+id, nil)
	case "req":
		d.Answer, d.AnsAt, d.AnsStep = "req", time.Now(), w.epoch
		delay := op.C
		d.ReqDelay = ms(delay)
		spell := fmt.Sprintf("%d", delay)
		if op.S2 != "" {
			spell = op.S2
			v, valid, known := spelledDelay(spell, false)
			switch {
			case !known || (valid && strings.ContainsAny(spell, " ")):
				d.fateUnknown = true
				d.ReqDelay = 0
			case !valid:
				// not a number: fatal E_INVALID, the message stays in flight
				d.Answer, d.AnsStep = "", 0
				co.fatalSent, co.expectClose, co.expectCloseStep = true, true, w.epoch
				w.badReq = append(w.badReq, co)
			case v.Cmp(big.NewInt(w.cfg.MaxReqTimeoutMs)) > 0:
				d.ReqDelay = ms(w.cfg.MaxReqTimeoutMs)
			default:
				d.ReqDelay = ms(v.Int64())
			}
		}
		co.cl.Cmd("REQ "+id+" "+spell, nil)
	case "touch":
		d.pendingTouch = append(d.pendingTouch, time.Now())
		d.touchStep = w.epoch
		co.cl.Cmd("TOUCH "+id, nil)
	}
}

func (w *qWorld) sendStale(co *consumer, d *delivery, kind int64) {
	id := d.mc.pub.ID
	k := []string{"FIN", "REQ", "TOUCH"}[int(uint64(kind)%3)]
	line := k + " " + id
	w.rc.Logf("%s stale %s m%06d", co.cl.Name, k, d.mc.pub.N)
	d.mc.noteCmd(co)
	if k == "REQ" {
		line += " 0"
	}
	w.stale = append(w.stale, &staleCmd{co: co, d: d, kind: k, step: w.epoch, burst: w.inBurst, holderBefore: w.currentHolder(d.mc)})
	co.cl.Cmd(line, nil)
}

func (w *qWorld) opClose(op Op) {
	co := w.liveConsumer(op.A)
	if co == nil {
		return
	}
	w.rc.Logf("closing %s (mode %d)", co.cl.Name, op.B)
	if op.B == 1 {
		co.cl.Conn.Reset()
		w.rc.Fault("conn_reset")
	} else {
		co.cl.Close()
		w.rc.Fault("conn_close")
	}
	w.consumerDied(co)
}

func (w *qWorld) consumerDied(co *consumer) {
	if co.Dead {
		return
	}
	co.Dead = true
	co.DeadStep = w.epoch
	if c := w.chans[co.ck]; c != nil {
		c.ConnEnds = append(c.ConnEnds, w.epoch)
		c.lastConnEnd = time.Now()
		w.ephemeralCleanup(c)
	}
}

// ephemeralCleanup: an ephemeral channel disappears with its last consumer,
// an ephemeral topic with its last channel.
func (w *qWorld) ephemeralCleanup(c *chanModel) {
	if c.Ephemeral && c.Exists && w.liveConsumersOf(c.Key) == 0 && c.hadConsumer {
		w.rc.Logf("ephemeral channel %s gone", c.Key)
		c.Exists = false
		c.ephemeralGone = true
		c.Epoch++
		c.VoidSeq = w.rc.Net.NextSeq()
		c.VoidStep = w.epoch
	}
	t := w.topic(c.Topic)
	if t.Ephemeral && t.Exists && !c.Exists {
		n := 0
		for _, o := range w.chans {
			if o.Topic == c.Topic && (o.Exists || o.Uncertain) {
				n++
			}
		}
		if n == 0 {
			w.rc.Logf("ephemeral topic %s gone", t.Name)
			t.Exists = false
			t.ephemeralGone = true
			t.Epoch++
			t.VoidSeq = w.rc.Net.NextSeq()
			t.VoidStep = w.epoch
		}
	}
}

// co0subscribed: the channel had at least one subscribed consumer at some point.
func co0subscribed(w *qWorld, ck string) bool {
	for _, co := range w.cons {
		if co.ck == ck && co.Subscribed {
			return true
		}
	}
	return false
}

func (w *qWorld) opAdmin(op Op) func() {
	topic, ch := w.topicName(op.A), w.chanName(op.B)
	what := op.S
	var path string
	isChan := strings.Contains(what, "channel")
	action := what[:strings.IndexByte(what, '_')]
	if isChan {
		path = "/channel/" + action + "?topic=" + url.QueryEscape(topic) + "&channel=" + url.QueryEscape(ch)
	} else {
		path = "/topic/" + action + "?topic=" + url.QueryEscape(topic)
	}
	sendSeq := w.rc.Net.NextSeq()
	sendStep := w.epoch
	// effects that must be assumed from the moment the request is sent
	switch what {
	case "empty_channel", "delete_channel":
		if c := w.chans[topic+"/"+ch]; c != nil {
			c.VoidSeq, c.VoidStep = sendSeq, sendStep
		}
	case "empty_topic", "delete_topic":
		if t := w.topics[topic]; t != nil {
			t.VoidSeq = sendSeq
			t.VoidStep = sendStep
		}
		if what == "delete_topic" {
			for _, k := range w.sortedChanKeys() {
				if c := w.chans[k]; c.Topic == topic {
					c.VoidSeq, c.VoidStep = sendSeq, sendStep
				}
			}
		}
	}
	preDiscard := int64(-1)
	if what == "empty_channel" && !w.inBurst && len(w.pending) == 0 {
		if doc, _ := w.getStats(""); doc != nil {
			if sc := doc.channel(topic, ch); sc != nil {
				preDiscard = sc.Depth + sc.InFlightCount + sc.DeferredCount
			}
		}
	}
	done := make(chan HTTPResp, 1)
	go func() { done <- httpDo(w.rc, "POST", w.httpAddr, path, nil, nil, nil, 120*time.Second) }()
	burst := w.inBurst
	return func() {
		if c := w.chans[topic+"/"+ch]; c != nil && what == "empty_channel" {
			w.rc.Logf("empty %s: pre-discard count %d (burst=%v) discarded so far %d fins %d", c.Key, preDiscard, burst, c.Discarded, c.Fins)
			if preDiscard >= 0 && !burst {
				c.Discarded += preDiscard
			} else {
				c.Tainted = true
			}
		}
		resp := <-done
		w.rc.Logf("admin %s -> %d %s err=%v", path, resp.Status, resp.Body, resp.Err)
		w.applyAdmin(what, topic, ch, resp, burst)
	}
}

func (w *qWorld) applyAdmin(what, topic, ch string, resp HTTPResp, burst bool) {
	t := w.topic(topic)
	ck := topic + "/" + ch
	okResp := resp.Err == nil && resp.Status == 200
	if w.burstAdmin == nil {
		w.burstAdmin = map[string]int{}
	}
	w.burstAdmin[what+"|"+ck] = resp.Status
	// expected status at quiescence (C10-style sanity, enforced for C08)
	if !burst && resp.Err == nil {
		exp := 200
		switch what {
		case "create_topic":
		case "create_channel", "delete_topic", "empty_topic", "pause_topic", "unpause_topic":
			if !t.Exists {
				exp = 404
			}
		default: // channel ops on existing channel
			c := w.chans[ck]
			if !t.Exists || c == nil || !c.Exists {
				exp = 404
			}
		}
		uncertain := t.Tainted && false
		if c := w.chans[ck]; c != nil && c.Uncertain {
			uncertain = true
		}
		if resp.Status != exp && !uncertain && !w.topicUncertain(topic) {
			w.violate("C08", "admin-status", "%s on %s: status %d, model expected %d", what, ck, resp.Status, exp)
		}
	}
	if !okResp {
		if resp.Err != nil {
			// outcome unknown
			if c := w.chans[ck]; c != nil {
				c.Uncertain = true
				c.Tainted = true
			}
			t.Tainted = true
		}
		return
	}
	switch what {
	case "create_topic":
		w.markTopicCreated(topic)
	case "create_channel":
		w.markChannelCreated(topic, ch)
	case "pause_topic":
		t.Paused, t.PauseStep = true, w.epoch
		t.pauseSteps = append(t.pauseSteps, w.epoch)
	case "unpause_topic":
		t.Paused, t.PauseStep = false, w.epoch
		t.pauseSteps = append(t.pauseSteps, w.epoch)
	case "pause_channel":
		if c := w.chans[ck]; c != nil {
			c.Paused, c.PausedStep = true, w.epoch
		}
	case "unpause_channel":
		if c := w.chans[ck]; c != nil {
			c.Paused, c.PausedStep = false, w.epoch
			c.unpausedAt = time.Now()
		}
	case "empty_channel":
		if c := w.chans[ck]; c != nil {
			w.voidChannel(c, false, burst)
		}
	case "delete_channel":
		if c := w.chans[ck]; c != nil {
			w.voidChannel(c, true, burst)
		}
	case "empty_topic":
		t.Epoch++
		if burst {
			t.Tainted = true
		}
	case "delete_topic":
		t.Exists = false
		t.Epoch++
		t.Paused = false
		if burst {
			// a racing publish/subscribe/create may have re-created it
			t.ExistUnknown = true
			t.Tainted = true
		}
		for _, p := range w.pubList {
			if p.Topic == topic && p.AckSeq != 0 && p.AckSeq < t.VoidSeq {
				t.discarded[p.Key] = w.epoch
				t.discardedAt[p.Key] = time.Now()
			}
		}
		for _, k := range w.sortedChanKeys() {
			if c := w.chans[k]; c.Topic == topic && (c.Exists || c.Uncertain) {
				w.voidChannel(c, true, burst)
			}
		}
	}
}

func (w *qWorld) topicUncertain(topic string) bool {
	t := w.topics[topic]
	return t != nil && t.Tainted && !t.Exists
}

// voidChannel applies an acknowledged empty (deleted=false) or delete.
func (w *qWorld) voidChannel(c *chanModel, deleted bool, burst bool) {
	c.Epoch++
	c.VoidAt = time.Now()
	for _, mc := range c.msgs {
		for _, d := range mc.dels {
			if d.Answer == "" || !d.AnsKnown {
				d.Voided = true
			}
		}
	}
	if burst {
		c.Tainted = true
	}
	if deleted {
		c.Exists = false
		c.lastDeleteStep = w.epoch
		c.Uncertain = burst
		c.Paused = false
		defer w.ephemeralCleanup(c)
		for _, co := range w.cons {
			if co.ck == c.Key && !co.Dead {
				co.expectClose = true
				co.expectCloseStep = w.epoch
			}
		}
	}
	c.pendingVoid = true
}

// ---------------------------------------------------------------- stats

type statsClient struct {
	ClientID      string `json:"client_id"`
	State         int    `json:"state"`
	ReadyCount    int64  `json:"ready_count"`
	InFlightCount int64  `json:"in_flight_count"`
	MessageCount  int64  `json:"message_count"`
	FinishCount   int64  `json:"finish_count"`
	RequeueCount  int64  `json:"requeue_count"`
}

type statsChannel struct {
	ChannelName   string        `json:"channel_name"`
	Depth         int64         `json:"depth"`
	BackendDepth  int64         `json:"backend_depth"`
	InFlightCount int64         `json:"in_flight_count"`
	DeferredCount int64         `json:"deferred_count"`
	MessageCount  int64         `json:"message_count"`
	RequeueCount  int64         `json:"requeue_count"`
	TimeoutCount  int64         `json:"timeout_count"`
	ClientCount   int64         `json:"client_count"`
	Clients       []statsClient `json:"clients"`
	Paused        bool          `json:"paused"`
}

type statsTopic struct {
	TopicName    string         `json:"topic_name"`
	Channels     []statsChannel `json:"channels"`
	Depth        int64          `json:"depth"`
	BackendDepth int64          `json:"backend_depth"`
	MessageCount int64          `json:"message_count"`
	MessageBytes int64          `json:"message_bytes"`
	Paused       bool           `json:"paused"`
}

type statsDoc struct {
	Version string       `json:"version"`
	Health  string       `json:"health"`
	Topics  []statsTopic `json:"topics"`
}

func (w *qWorld) getStats(query string) (*statsDoc, HTTPResp) {
	resp := httpDo(w.rc, "GET", w.httpAddr, "/stats?format=json&include_mem=false"+query, nil, nil, nil, 60*time.Second)
	if resp.Err != nil || resp.Status != 200 {
		return nil, resp
	}
	var d statsDoc
	if err := json.Unmarshal(resp.Body, &d); err != nil {
		resp.Err = err
		return nil, resp
	}
	return &d, resp
}

func (d *statsDoc) channel(topic, ch string) *statsChannel {
	for i := range d.Topics {
		if d.Topics[i].TopicName != topic {
			continue
		}
		for j := range d.Topics[i].Channels {
			if d.Topics[i].Channels[j].ChannelName == ch {
				return &d.Topics[i].Channels[j]
			}
		}
	}
	return nil
}

func (d *statsDoc) topic(topic string) *statsTopic {
	for i := range d.Topics {
		if d.Topics[i].TopicName == topic {
			return &d.Topics[i]
		}
	}
	return nil
}

func listDataFiles(dir string) []string {
	ents, _ := os.ReadDir(dir)
	var out []string
	for _, e := range ents {
		out = append(out, e.Name())
	}
	sort.Strings(out)
	return out
}

var _ = simnet.RefuseNone

func (mc *msgChan) noteCmd(co *consumer) {
	if mc.cmdAt == nil {
		mc.cmdAt = map[*consumer]time.Time{}
	}
	mc.cmdAt[co] = time.Now()
}

// spelledDelay interprets a delay as written on the wire. valid: the text is a
// number in the syntax of that interface (TCP: decimal digits; HTTP: optional
// sign and decimal digits). known=false: the syntax leaves it open (empty TCP
// parameter).
func spelledDelay(sp string, http bool) (v *big.Int, valid bool, known bool) {
	if sp == "" || (!http && strings.ContainsAny(sp, " ")) {
		// TCP parameters are separated by spaces: not a way of writing one number
		return nil, false, http
	}
	t := sp
	if http && (t[0] == '+' || t[0] == '-') {
		t = t[1:]
	}
	if t == "" {
		return nil, false, true
	}
	for i := 0; i < len(t); i++ {
		if t[i] < '0' || t[i] > '9' {
			return nil, false, true
		}
	}
	v, _ = new(big.Int).SetString(t, 10)
	if http && sp[0] == '-' {
		v.Neg(v)
	}
	return v, true, true
}

// expectDefer: what the property demands for a deferred publish written as sp.
func (w *qWorld) expectDefer(sp string, http bool) (deferMs int64, expect int) {
	v, valid, known := spelledDelay(sp, http)
	if !known {
		return 0, 0
	}
	if !valid || v.Sign() < 0 || v.Cmp(big.NewInt(w.cfg.MaxReqTimeoutMs)) > 0 {
		return 0, -1
	}
	return v.Int64(), 1
}

func (w *qWorld) checkDeferOutcome(p *pubRec, expect int, what, sp string, bodyLen int) {
	if expect == 0 || p.Unknown || int64(bodyLen) > w.cfg.MaxMsgSize {
		return
	}
	w.rc.Probe("defer_spelling_checked")
	if expect < 0 && p.Acked {
		w.violate("C04", "defer-out-of-range-accepted", "%s with delay written %q (max-req-timeout %dms) was accepted", what, sp, w.cfg.MaxReqTimeoutMs)
	}
	if expect > 0 && p.Rejected {
		w.violate("C04", "valid-defer-rejected", "%s with delay written %q (max-req-timeout %dms) was refused", what, sp, w.cfg.MaxReqTimeoutMs)
	}
}
