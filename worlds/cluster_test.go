package zzverif

import (
	"bytes"
	"encoding/json"
	"fmt"
	"net"
	"net/url"
	"sort"
	"strings"
	"testing/synctest"
	"time"

	"github.com/nsqio/nsq/nsqd"
	"github.com/nsqio/nsq/nsqlookupd"

	"verifsim/simnet"
)

func init() { registerWorld("cluster", clusterWorld) }

// CCfg: configuration of a cluster-world run (C16).
type CCfg struct {
	NLookupd  int    `json:"n_lookupd"`
	Stub      bool   `json:"stub"` // additionally one hostile stub lookupd
	YieldProb uint32 `json:"yield_prob"`
	Topics    []string `json:"topics"`
	Channels  []string `json:"channels"`
	ShortReads int     `json:"short_reads,omitempty"` // 0 off, else one read in n returns only a part of what has arrived (TCP segmentation)
}

type cLookupd struct {
	l        *nsqlookupd.NSQLookupd
	tcp, http string
	up       bool
	fault    int // simnet refuse mode currently installed on the TCP address
	knows    map[string]map[string]bool // channels this lookupd was told about by others (HTTP create) since it started
	okSince  time.Time                  // up and fault-free since (zero: not)
}

type cWorld struct {
	rc    *RunCtx
	cfg   CCfg
	n     *nsqd.NSQD
	lk    []*cLookupd
	stubL net.Listener
	stubMode int
	stubAddr string
	tcp, http string
	topics map[string]map[string]bool // nsqd's registry per model: topic -> channels
	known  map[string]map[string]bool // channels lookupds were told about by others (lookupd HTTP create)
	pub    *V2Client
	bodyN  int
	addrs  []string // current configured lookupd tcp addresses
	cfgSince map[string]time.Time // lookupd tcp address -> configured at nsqd since
}

func genCCfg(rc *RunCtx) CCfg {
	r := rc.Rng
	c := CCfg{NLookupd: r.Range(1, 3), Stub: r.Chance(1, 2), YieldProb: uint32(r.Pick(0, 1024, 4096)),
		Topics: []string{"t0", "t1", "t2", "e#ephemeral"}[:r.Range(2, 4)], Channels: []string{"c0", "c1", "x#ephemeral", "c2", "c3", "c4"}[:r.Pick(1, 2, 3, 5, 6)]}
	c.ShortReads = NewPRNG(rc.Seed ^ 0x5e6).Pick(0, 0, 2, 6) // own stream: the rest of the configuration of a seed is unchanged
	return c
}

func genCOps(rc *RunCtx, c CCfg) []Op {
	r := rc.Rng
	n := r.Range(8, 40)
	var ops []Op
	add := func(o Op) { o.Uid = len(ops); ops = append(ops, o) }
	for len(ops) < n {
		t, ch, l := int64(r.Intn(8)), int64(r.Intn(8)), int64(r.Intn(4))
		if r.Chance(1, 12) {
			// other nsqds told the lookupds about several channels of a topic; then the
			// topic is first published here by several publishers at once
			add(Op{Kind: "adv", A: 36000})
			for k := r.Range(2, 5); k > 0; k-- {
				add(Op{Kind: "lkcreate", A: t, B: int64(r.Intn(8))})
			}
			add(Op{Kind: "pub", A: t, B: int64(r.Pick(1, 3, 3))})
			continue
		}
		switch r.Weighted([]int{10, 8, 6, 6, 10, 12, 6, 6, 5, 10, 4, 6}) {
		case 0:
			add(Op{Kind: "nsqd", S: "create_topic", A: t})
		case 1:
			add(Op{Kind: "nsqd", S: "create_channel", A: t, B: ch})
		case 2:
			add(Op{Kind: "nsqd", S: "delete_topic", A: t})
		case 3:
			add(Op{Kind: "nsqd", S: "delete_channel", A: t, B: ch})
		case 4:
			add(Op{Kind: "pub", A: t, B: int64(r.Pick(0, 0, 1, 3))})
		case 5:
			add(Op{Kind: "fault", A: l, B: int64(r.Pick(simnet.RefuseRST, simnet.RefuseBlackhole, simnet.RefuseAcceptClose, simnet.RefuseNone, simnet.RefuseNone))})
		case 6:
			add(Op{Kind: "restartlk", A: l})
		case 7:
			add(Op{Kind: "killconns", A: l})
		case 8:
			add(Op{Kind: "stubmode", A: int64(r.Intn(8))})
		case 9:
			add(Op{Kind: "adv", A: int64(r.Pick(100, 1000, 5000, 15000, 16000, 31000))})
		case 10:
			add(Op{Kind: "reconfig", A: int64(r.Intn(8))})
		case 11:
			add(Op{Kind: "lkcreate", A: t, B: ch})
		}
	}
	return ops
}

func clusterWorld(rc *RunCtx) {
	w := &cWorld{rc: rc, topics: map[string]map[string]bool{}, known: map[string]map[string]bool{}, cfgSince: map[string]time.Time{}}
	var ops []Op
	if rc.Replay != nil {
		if err := json.Unmarshal(rc.Replay.Cfg, &w.cfg); err != nil {
			panic(err)
		}
		ops = rc.Replay.Ops
	} else {
		w.cfg = genCCfg(rc)
		ops = genCOps(rc, w.cfg)
	}
	c := w.cfg
	if rc.GenOnly(c, ops) {
		return
	}
	rc.Sched.Prob = c.YieldProb
	netRng := NewPRNG(rc.Seed ^ 0x77)
	installShortReads(rc, c.ShortReads, &netRng)
	for i := 0; i < c.NLookupd; i++ {
		lk := &cLookupd{tcp: fmt.Sprintf("127.0.0.1:%d", 4160+10*i), http: fmt.Sprintf("127.0.0.1:%d", 4161+10*i)}
		w.lk = append(w.lk, lk)
		if !w.startLookupd(lk) {
			return
		}
		w.addrs = append(w.addrs, lk.tcp)
		w.cfgSince[lk.tcp] = time.Now()
	}
	if c.Stub {
		w.stubAddr = "127.0.0.1:4190"
		w.startStub()
		w.addrs = append(w.addrs, w.stubAddr)
	}
	o := nsqd.NewOptions()
	o.Logger = &simLogger{rc: rc, name: "nsqd"}
	o.TCPAddress, o.HTTPAddress, o.HTTPSAddress = "127.0.0.1:4150", "127.0.0.1:4151", ""
	o.BroadcastAddress = "nsqd.sim"
	o.DataPath = rc.Dir
	o.NSQLookupdTCPAddresses = append([]string(nil), w.addrs...)
	o.HTTPClientConnectTimeout = 2 * time.Second
	o.HTTPClientRequestTimeout = 5 * time.Second
	n, err := nsqd.New(o)
	if err != nil {
		rc.Violate("C16", "startup-failed", "%v", err)
		return
	}
	n.LoadMetadata()
	n.PersistMetadata()
	w.n = n
	go n.Main()
	w.tcp, w.http = "127.0.0.1:4150", "127.0.0.1:4151"
	rc.Defer(func() {
		n.Exit()
		for _, lk := range w.lk {
			if lk.up {
				lk.l.Exit()
			}
		}
		if w.stubL != nil {
			w.stubL.Close()
		}
		synctest.Wait()
	})
	synctest.Wait()
	rc.Logf("cfg %+v", c)
	for i, op := range ops {
		rc.step = i + 1
		rc.Reseed(op.Uid)
		netRng = NewPRNG(rc.Seed*131 + uint64(op.Uid))
		rc.opsKind[op.Kind]++
		rc.Logf("op %d uid=%d %s a=%d b=%d s=%q", i, op.Uid, op.Kind, op.A, op.B, op.S)
		w.exec(op)
		synctest.Wait()
		if rc.Failed() {
			break
		}
	}
	if !rc.Failed() {
		w.converge()
	}
	rc.Res.Ops = len(ops)
	rc.Res.Nontrivial = len(rc.faults) > 0 && len(ops) > 4
	rc.Res.State = fmt.Sprintf("%016x", fnv([]byte(fmt.Sprint(w.topics))))
	sample := map[string]interface{}{"seed": rc.Seed, "cfg": c, "ops_head": head(ops, 14), "n_ops": len(ops)}
	rc.Res.Sample, _ = json.Marshal(sample)
	if rc.Failed() {
		rc.writeReplay(c, ops)
	}
}

func (w *cWorld) startLookupd(lk *cLookupd) bool {
	o := nsqlookupd.NewOptions()
	o.Logger = &simLogger{rc: w.rc, name: "lookupd" + lk.tcp[len(lk.tcp)-2:]}
	o.TCPAddress, o.HTTPAddress = lk.tcp, lk.http
	o.BroadcastAddress = "127.0.0.1"
	l, err := nsqlookupd.New(o)
	if err != nil {
		w.rc.Violate("C16", "startup-failed", "lookupd: %v", err)
		return false
	}
	lk.l, lk.up = l, true
	lk.knows = map[string]map[string]bool{} // lookupd keeps no state across restarts
	lk.okSince = time.Time{}
	if lk.fault == simnet.RefuseNone {
		lk.okSince = time.Now()
	}
	go l.Main()
	synctest.Wait()
	return true
}

// ---------------------------------------------------------------- hostile stub lookupd

func (w *cWorld) startStub() {
	l, err := w.rc.Net.Listen("tcp", w.stubAddr)
	if err != nil {
		return
	}
	w.stubL = l
	go func() {
		for {
			c, err := l.Accept()
			if err != nil {
				return
			}
			go w.stubServe(c)
		}
	}()
}

func (w *cWorld) stubServe(c net.Conn) {
	defer c.Close()
	buf := make([]byte, 4096)
	for {
		c.SetReadDeadline(time.Now().Add(60 * time.Second))
		n, err := c.Read(buf)
		if err != nil {
			return
		}
		_ = n
		w.rc.Probe("stub_requests")
		var out []byte
		switch w.stubMode {
		case 0: // plausible IDENTIFY answer (then OK to everything)
			body := `{"tcp_port":4190,"http_port":4191,"version":"stub","broadcast_address":"127.0.0.1"}`
			if !bytes.Contains(buf[:n], []byte("IDENTIFY")) {
				body = "OK"
			}
			out = append(be32(int32(len(body))), body...)
		case 1: // negative length prefix
			out = be32(-1)
			w.rc.Fault("stub_negative_size")
		case 2: // very negative
			out = be32(-2147483648)
			w.rc.Fault("stub_negative_size")
		case 3: // oversized length prefix
			out = append(be32(2147483647), "xx"...)
			w.rc.Fault("stub_oversized")
		case 4: // garbage
			out = []byte("HTTP/1.1 400 Bad Request\r\n\r\n")
			w.rc.Fault("stub_garbage")
		case 5: // stall: never answer
			w.rc.Fault("stub_stall")
			time.Sleep(30 * time.Second)
			return
		case 6: // close at once
			w.rc.Fault("stub_close")
			return
		case 7: // truncated frame
			out = append(be32(100), "short"...)
			w.rc.Fault("stub_truncated")
		}
		c.Write(out)
	}
}

// ---------------------------------------------------------------- operations

func (w *cWorld) tname(i int64) string { return w.cfg.Topics[int(uint64(i)%uint64(len(w.cfg.Topics)))] }
func (w *cWorld) cname(i int64) string {
	return w.cfg.Channels[int(uint64(i)%uint64(len(w.cfg.Channels)))]
}

func (w *cWorld) healthy() bool {
	for _, a := range w.addrs {
		if a == w.stubAddr {
			return false
		}
		for _, lk := range w.lk {
			if lk.tcp == a && (!lk.up || lk.fault != simnet.RefuseNone) {
				return false
			}
		}
	}
	return true
}

func (w *cWorld) exec(op Op) {
	rc := w.rc
	switch op.Kind {
	case "adv":
		time.Sleep(ms(op.A))
	case "nsqd":
		t, ch := w.tname(op.A), w.cname(op.B)
		var path string
		switch op.S {
		case "create_topic":
			path = "/topic/create?topic=" + url.QueryEscape(t)
		case "delete_topic":
			path = "/topic/delete?topic=" + url.QueryEscape(t)
		case "create_channel":
			path = "/channel/create?topic=" + url.QueryEscape(t) + "&channel=" + url.QueryEscape(ch)
		case "delete_channel":
			path = "/channel/delete?topic=" + url.QueryEscape(t) + "&channel=" + url.QueryEscape(ch)
		}
		_, existed := w.topics[t]
		t0 := time.Now()
		resp := httpDo(rc, "POST", w.http, path, nil, nil, nil, 120*time.Second)
		rc.Logf("nsqd %s -> %d %s err=%v (%v)", path, resp.Status, resp.Body, resp.Err, time.Since(t0))
		if resp.Err != nil {
			rc.Violate("C16", "nsqd-unresponsive", "%s: %v after %v", path, resp.Err, time.Since(t0))
			return
		}
		w.checkLatency(path, time.Since(t0))
		if resp.Status != 200 {
			return
		}
		switch op.S {
		case "create_topic":
			if !existed {
				w.topicCreated(t)
			}
		case "create_channel":
			w.topics[t][ch] = true
		case "delete_topic":
			delete(w.topics, t)
		case "delete_channel":
			delete(w.topics[t], ch)
		}
	case "pub":
		t := w.tname(op.A)
		if w.pub == nil || w.pub.Closed() {
			p, err := dialV2(rc, "pub", w.tcp, "  V2")
			if err != nil {
				rc.Violate("C16", "nsqd-unresponsive", "connect: %v", err)
				return
			}
			p.Start()
			w.pub = p
		}
		w.bodyN++
		body := []byte(fmt.Sprintf("m%05d", w.bodyN))
		_, existed := w.topics[t]
		// channels a lookupd knows that nsqd has certainly identified with and can reach:
		// configured, up and fault-free for more than two heartbeats
		must := map[string]bool{}
		for _, lk := range w.lk {
			cs, cfgd := w.cfgSince[lk.tcp]
			if !cfgd || !lk.up || lk.fault != simnet.RefuseNone || lk.okSince.IsZero() {
				continue
			}
			if time.Since(cs) < 35*time.Second || time.Since(lk.okSince) < 35*time.Second {
				continue
			}
			for ch := range lk.knows[t] {
				must[ch] = true
			}
		}
		t0 := time.Now()
		// op.B further publishers send to the same topic at the same moment (HTTP):
		// for a new topic they arrive while the first one is still asking the lookupds
		extra := int(op.B)
		if existed {
			extra = 0
		}
		extraDone := make(chan HTTPResp, extra)
		for k := 0; k < extra; k++ {
			w.bodyN++
			eb := []byte(fmt.Sprintf("m%05d", w.bodyN))
			go func() { extraDone <- httpDo(rc, "POST", w.http, "/pub?topic="+url.QueryEscape(t), eb, nil, nil, 120*time.Second) }()
		}
		w.pub.Cmd("PUB "+t, body)
		f, ok := w.pub.WaitFrame(120*time.Second, isNonMsg)
		if !ok || string(f.Data) != "OK" {
			rc.Violate("C16", "publish-failed", "PUB %s during lookupd faults: %q ok=%v after %v", t, f.Data, ok, time.Since(t0))
			return
		}
		published := int64(1)
		for k := 0; k < extra; k++ {
			if r := <-extraDone; r.Err == nil && r.Status == 200 {
				published++
			} else {
				rc.Violate("C16", "publish-failed", "POST /pub %s during lookupd faults: %d %v", t, r.Status, r.Err)
				return
			}
		}
		if extra > 0 {
			rc.Probe("concurrent_first_publishes")
		}
		w.checkLatency("PUB "+t, time.Since(t0))
		rc.Probe("publishes")
		if !existed {
			w.topicCreated(t)
			// first message of a new topic reaches every non-ephemeral channel the lookupds already knew
			if len(must) > 0 {
				synctest.Wait()
				doc := w.stats()
				var chs []string
				for ch := range must {
					chs = append(chs, ch)
				}
				sort.Strings(chs)
				for _, ch := range chs {
					if strings.HasSuffix(ch, "#ephemeral") {
						continue
					}
					sc := doc.channel(t, ch)
					if sc == nil || sc.MessageCount < 1 {
						rc.Violate("C16", "channel-not-precreated", "topic %s first published while a healthy, long-connected lookupd knew channel %s: the channel did not get the first message (%+v)", t, ch, sc)
						return
					}
					if int64(sc.MessageCount) < published {
						rc.Violate("C16", "channel-missed-first-messages", "topic %s: %d publishes were acknowledged while the topic was being created; channel %s (known to a healthy lookupd beforehand) got only %d of them", t, published, ch, sc.MessageCount)
						return
					}
					w.topics[t][ch] = true
					rc.Probe("precreated_channels")
				}
			}
		}
		// whatever channels exist now (pre-created from lookupd) become part of the registry
		if doc := w.stats(); doc != nil {
			if st := doc.topic(t); st != nil {
				for _, c := range st.Channels {
					w.topics[t][c.ChannelName] = true
				}
			}
		}
	case "fault":
		if len(w.lk) == 0 {
			return
		}
		lk := w.lk[int(uint64(op.A)%uint64(len(w.lk)))]
		lk.fault = int(op.B)
		lk.okSince = time.Time{}
		if op.B == simnet.RefuseNone && lk.up {
			lk.okSince = time.Now()
		}
		rc.Net.SetRefuse(lk.tcp, int(op.B))
		rc.Net.SetRefuse(lk.http, int(op.B))
		if op.B != simnet.RefuseNone {
			rc.Fault([]string{"", "lookupd_refuse", "lookupd_blackhole", "lookupd_accept_close"}[op.B])
		} else {
			rc.Probe("heals")
		}
	case "killconns":
		// drop every established connection to that lookupd's TCP port
		lk := w.lk[int(uint64(op.A)%uint64(len(w.lk)))]
		for _, c := range rc.Net.Conns() {
			if c.RemoteAddr().String() == lk.tcp && !c.IsDead() {
				c.Reset()
				rc.Fault("lookupd_conn_reset")
			}
		}
	case "restartlk":
		lk := w.lk[int(uint64(op.A)%uint64(len(w.lk)))]
		if lk.up {
			lk.l.Exit()
			lk.up = false
			// the process is gone: so is every connection it had (Exit leaves
			// established HTTP keep-alive connections being served)
			for _, c := range rc.Net.Conns() {
				if a := c.RemoteAddr().String(); (a == lk.tcp || a == lk.http) && !c.IsDead() {
					c.Reset()
				}
			}
			synctest.Wait()
			rc.Fault("lookupd_restart_empty")
			// lookupd keeps no state: everything it was told is gone
			time.Sleep(ms(int64(op.A%3) * 500))
		}
		w.startLookupd(lk)
	case "stubmode":
		w.stubMode = int(op.A % 8)
	case "reconfig":
		// runtime reconfiguration of the lookupd list: a non-empty subset
		var sub []string
		all := []string{}
		for _, lk := range w.lk {
			all = append(all, lk.tcp)
		}
		if w.cfg.Stub {
			all = append(all, w.stubAddr)
		}
		for i, a := range all {
			if (op.A>>uint(i))&1 == 1 {
				sub = append(sub, a)
			}
		}
		if len(sub) == 0 {
			sub = all[:1]
		}
		b, _ := json.Marshal(sub)
		resp := httpDo(rc, "PUT", w.http, "/config/nsqlookupd_tcp_addresses", b, nil, nil, 60*time.Second)
		rc.Logf("reconfig %s -> %d", b, resp.Status)
		if resp.Err != nil || resp.Status != 200 {
			rc.Violate("C16", "reconfig-failed", "%d %v", resp.Status, resp.Err)
			return
		}
		old := w.cfgSince
		w.cfgSince = map[string]time.Time{}
		for _, a := range sub {
			if ts, ok := old[a]; ok {
				w.cfgSince[a] = ts
			} else {
				w.cfgSince[a] = time.Now()
			}
		}
		w.addrs = sub
		rc.Probe("reconfigs")
	case "lkcreate":
		// somebody else tells every lookupd about a channel (admin create)
		t, ch := w.tname(op.A), w.cname(op.B)
		for _, lk := range w.lk {
			if !lk.up || lk.fault != simnet.RefuseNone {
				continue
			}
			r := httpDo(rc, "POST", lk.http, "/channel/create?topic="+url.QueryEscape(t)+"&channel="+url.QueryEscape(ch), nil, nil, nil, 30*time.Second)
			if r.Status == 200 {
				if lk.knows[t] == nil {
					lk.knows[t] = map[string]bool{}
				}
				lk.knows[t][ch] = true
			}
		}
	}
}

func (w *cWorld) topicCreated(t string) {
	if w.topics[t] == nil {
		w.topics[t] = map[string]bool{}
	}
}

// checkLatency: publishing and administration are answered within the bound
// given by the documented blocking lookup on topic creation (connect + request
// timeout per configured lookupd) plus lookupd command round trips.
func (w *cWorld) checkLatency(what string, d time.Duration) {
	bound := time.Duration(len(w.lk)+1) * (2*time.Second + 5*time.Second + 3*time.Second)
	if d > bound {
		w.rc.Violate("C16", "stalled-by-lookupd", "%s took %v of simulated time (bound %v)", what, d, bound)
	}
}

func (w *cWorld) stats() *statsDoc {
	resp := httpDo(w.rc, "GET", w.http, "/stats?format=json&include_mem=false", nil, nil, nil, 60*time.Second)
	if resp.Err != nil || resp.Status != 200 {
		w.rc.Violate("C16", "nsqd-unresponsive", "/stats: %d %v", resp.Status, resp.Err)
		return &statsDoc{}
	}
	var d statsDoc
	json.Unmarshal(resp.Body, &d)
	return &d
}

// converge: faults stop; within a few heartbeat intervals every reachable
// lookupd lists this nsqd as producer of exactly its current topics/channels.
func (w *cWorld) converge() {
	rc := w.rc
	for _, lk := range w.lk {
		rc.Net.SetRefuse(lk.tcp, simnet.RefuseNone)
		rc.Net.SetRefuse(lk.http, simnet.RefuseNone)
		lk.fault = simnet.RefuseNone
		if !lk.up {
			w.startLookupd(lk)
		}
	}
	w.stubMode = 0
	// adopt nsqd's own registry as the reference (pre-created channels etc.)
	doc := w.stats()
	cur := map[string]map[string]bool{}
	for _, t := range doc.Topics {
		cur[t.TopicName] = map[string]bool{}
		for _, c := range t.Channels {
			cur[t.TopicName][c.ChannelName] = true
		}
	}
	time.Sleep(3*15*time.Second + 10*time.Second)
	synctest.Wait()
	if r := httpDo(rc, "GET", w.http, "/ping", nil, nil, nil, 30*time.Second); r.Err != nil || r.Status != 200 {
		rc.Violate("C16", "nsqd-unresponsive", "/ping after faults: %d %v", r.Status, r.Err)
		return
	}
	for _, lk := range w.lk {
		configured := false
		for _, a := range w.addrs {
			if a == lk.tcp {
				configured = true
			}
		}
		if !configured {
			continue
		}
		resp := httpDo(rc, "GET", lk.http, "/debug", nil, nil, nil, 30*time.Second)
		if resp.Err != nil || resp.Status != 200 {
			rc.Violate("C16", "lookupd-unresponsive", "%s /debug: %d %v", lk.http, resp.Status, resp.Err)
			return
		}
		var dbg map[string][]struct {
			Broadcast string `json:"broadcast_address"`
		}
		json.Unmarshal(resp.Body, &dbg)
		got := []string{}
		for key, ps := range dbg {
			for _, p := range ps {
				if p.Broadcast == "nsqd.sim" && !strings.HasPrefix(key, "client:") {
					got = append(got, key)
				}
			}
		}
		want := []string{}
		for t, chs := range cur {
			want = append(want, "topic:"+t+":")
			for c := range chs {
				want = append(want, "channel:"+t+":"+c)
			}
		}
		sort.Strings(got)
		sort.Strings(want)
		rc.Probe("convergence_checked")
		if strings.Join(got, " ") != strings.Join(want, " ") {
			rc.Violate("C16", "not-converged", "%v after faults stopped lookupd %s lists nsqd for [%s], nsqd has [%s]", 55*time.Second, lk.tcp, strings.Join(got, " "), strings.Join(want, " "))
			return
		}
	}
}
