package zzverif

import (
	"bufio"
	"encoding/binary"
	"fmt"
	"net"
	"net/http"
	"net/url"
	"os"
	"path/filepath"
	"sort"
	"strings"
	"testing/synctest"
	"time"
)

type staleCmd struct {
	co           *consumer
	d            *delivery
	kind         string
	step         int
	burst        bool
	holderBefore *consumer
	failed       bool
}

// ---------------------------------------------------------------- holders and deadlines

func lastDel(mc *msgChan) *delivery {
	if len(mc.dels) == 0 {
		return nil
	}
	return mc.dels[len(mc.dels)-1]
}

// currentHolder: the connection that may legitimately answer for mc now.
func (w *qWorld) currentHolder(mc *msgChan) *consumer {
	d := lastDel(mc)
	if d == nil || d.Voided {
		return nil
	}
	if d.Answer != "" && (!d.AnsKnown || d.AnsOK) {
		return nil
	}
	return d.cons
}

// slack is the longest a message frame may sit in nsqd's output buffer for
// this consumer before it is flushed; ok=false means unbounded.
func (co *consumer) slack() (time.Duration, bool) {
	switch {
	case co.Unbuffered:
		return 0, true
	case co.OBT > 0:
		return co.OBT, true
	}
	return 0, false
}

// deadlineLower is the earliest instant at which nsqd may consider d timed out.
func (w *qWorld) deadlineLower(d *delivery) (time.Time, bool) {
	sl, ok := d.cons.slack()
	if !ok {
		return time.Time{}, false
	}
	sendLo := d.At.Add(-sl)
	dl := sendLo.Add(d.cons.MsgTimeout)
	if n := len(d.Touches); n > 0 {
		t := d.Touches[n-1].Add(d.cons.MsgTimeout)
		cap := sendLo.Add(ms(w.cfg.MaxMsgTimeoutMs))
		if t.After(cap) {
			t = cap
		}
		if t.After(dl) {
			dl = t
		}
	}
	return dl, true
}

// ---------------------------------------------------------------- settle / collect

func (w *qWorld) beginStep() {
	for _, co := range w.cons {
		co.rdyStepMax = co.Rdy
	}
}

func (w *qWorld) settle() {
	for _, f := range w.pending {
		if f != nil {
			f()
		}
	}
	w.pending = nil
	synctest.Wait()
	w.collect()
	w.inBurst = false
	w.epoch++ // operations issued from now on belong to the next settle epoch
}

type coFrame struct {
	co *consumer
	f  Frame
}

func (w *qWorld) collect() {
	var all []coFrame
	for _, co := range w.cons {
		for _, f := range co.cl.Drain() {
			all = append(all, coFrame{co, f})
		}
	}
	sort.Slice(all, func(i, j int) bool { return all[i].f.Seq < all[j].f.Seq })
	// Receipt order equals send order on ONE connection only: two frames of the
	// same message sent to two connections at the same simulated instant are
	// stamped in the order the harness's reader goroutines happen to run. Among
	// such frames the attempts count gives the order they were sent in.
	type slot struct {
		pos int
		att uint16
	}
	groups := map[string][]slot{}
	for i, cf := range all {
		if cf.f.Type != frameMessage || len(cf.f.Data) < 26 {
			continue
		}
		k := cf.co.ck + "|" + string(cf.f.Data[10:26]) + "|" + cf.f.At.String()
		groups[k] = append(groups[k], slot{i, binary.BigEndian.Uint16(cf.f.Data[8:10])})
	}
	for _, g := range groups {
		if len(g) < 2 {
			continue
		}
		frames := make([]coFrame, len(g))
		for i, s := range g {
			frames[i] = all[s.pos]
		}
		sort.SliceStable(frames, func(i, j int) bool {
			return binary.BigEndian.Uint16(frames[i].f.Data[8:10]) < binary.BigEndian.Uint16(frames[j].f.Data[8:10])
		})
		for i, s := range g {
			all[s.pos] = frames[i]
		}
	}
	for _, cf := range all {
		switch cf.f.Type {
		case frameMessage:
			w.onMessage(cf.co, cf.f)
		case frameError:
			w.onError(cf.co, cf.f)
		default:
			w.rc.Logf("%s: response %q", cf.co.cl.Name, cf.f.Data)
		}
	}
	// connections the server closed
	for _, co := range w.cons {
		if !co.Dead && co.cl.Closed() {
			w.rc.Logf("%s: closed by server (expected=%v)", co.cl.Name, co.expectClose)
			if !co.expectClose && !co.fatalSent && co.Subscribed {
				w.rc.Probe("unexpected_server_close")
			}
			w.consumerDied(co)
		}
	}
	// delete must disconnect the consumers (C08)
	for _, co := range w.cons {
			if co.expectClose && !co.Dead && !co.cl.Closed() && co.expectCloseStep < w.epoch {
			w.violate("C08", "consumer-not-disconnected", "%s still connected after delete of %s was acknowledged", co.cl.Name, co.ck)
			co.expectClose = false
		}
	}
	w.resolveAnswers()
	w.applyVoids()
}

func (w *qWorld) onError(co *consumer, f Frame) {
	code := errCode(f.Data)
	w.rc.Logf("%s: error frame %q", co.cl.Name, f.Data)
	fields := strings.Fields(string(f.Data))
	switch code {
	case "E_FIN_FAILED", "E_REQ_FAILED", "E_TOUCH_FAILED":
		if len(fields) < 3 {
			w.violate("C02", "bad-error-text", "%s: %q", co.cl.Name, f.Data)
			return
		}
		id := fields[2]
		kind := map[string]string{"E_FIN_FAILED": "fin", "E_REQ_FAILED": "req", "E_TOUCH_FAILED": "touch"}[code]
		// stale commands first (oldest unresolved of this kind and id)
		for _, s := range w.stale {
			if s.co == co && !s.failed && strings.ToLower(s.kind) == kind && s.d.mc.pub.ID == id && s.step == w.epoch {
				s.failed = true
				return
			}
		}
		for _, d := range co.Dels {
			if d.mc.pub.ID != id {
				continue
			}
			if kind == "touch" {
				if len(d.pendingTouch) > 0 {
					// several TOUCHes of one delivery may be unresolved (a burst that slept until a deadline); a
					// connection's commands are executed in order, so once the message has left the in-flight set
					// all later ones fail: the refused one is the latest, the earlier ones renewed the deadline
					d.pendingTouch = d.pendingTouch[:len(d.pendingTouch)-1]
					w.onAnswerFailed(co, d, "touch")
					return
				}
				continue
			}
			if d.Answer == kind && !d.AnsKnown {
				d.AnsKnown, d.AnsOK = true, false
				w.onAnswerFailed(co, d, kind)
				return
			}
		}
		w.rc.Logf("unattributed %s on %s", f.Data, co.cl.Name)
	default:
		// fatal errors end the connection
		co.fatalSent = true
	}
}

// onAnswerFailed: the holder's FIN/REQ/TOUCH was refused. That is only
// legitimate if the message may have timed out, or was emptied/deleted.
func (w *qWorld) onAnswerFailed(co *consumer, d *delivery, kind string) {
	w.rc.Probe("answer_failed_" + kind)
	if d.Voided || d.maybeAnswered {
		return
	}
	cm := w.chans[co.ck]
	if cm == nil || cm.VoidStep >= d.Step || !cm.Exists || cm.Unordered {
		return
	}
	if lastDel(d.mc) != d {
		return // redelivered meanwhile: it had timed out
	}
	dl, ok := w.deadlineLower(d)
	when := d.AnsAt
	if kind == "touch" {
		when = time.Now()
	}
	if ok && when.Before(dl) && d.AnsStep >= 0 {
		w.violate("C02", "holder-answer-refused", "%s: %s for %s refused although it holds the message (delivered %v, deadline not before %v, answered %v)",
			co.cl.Name, kind, d.mc.pub.ID, d.At.Sub(w.rc.start), dl.Sub(w.rc.start), when.Sub(w.rc.start))
	}
}

func (w *qWorld) resolveAnswers() {
	for _, co := range w.cons {
		for _, d := range co.Dels {
			if len(d.pendingTouch) > 0 {
				if co.Dead {
					d.pendingTouch = nil
				} else {
					d.Touches = append(d.Touches, d.pendingTouch...)
					d.pendingTouch = nil
					w.rc.Probe("touch_accepted")
				}
			}
			if d.Answer == "" || d.AnsKnown {
				continue
			}
			d.AnsKnown = true
			cm := w.chans[co.ck]
			if co.Dead && co.DeadStep <= d.AnsStep+0 && co.DeadStep >= d.AnsStep {
				// answered and the connection ended in the same step: fate unknown
				d.AnsOK = false
				d.mc.finMaybe = d.mc.finMaybe || d.Answer == "fin"
				d.fateUnknown = true
				if cm != nil {
					cm.Tainted = true
				}
				continue
			}
			d.AnsOK = true
			switch d.Answer {
			case "fin":
				d.mc.fin, d.mc.finAt = true, d.AnsAt
				co.Fins++
				if cm != nil {
					cm.Fins++
				}
				w.rc.Probe("fin_accepted")
			case "req":
				co.Reqs++
				if cm != nil {
					cm.Reqs++
				}
				w.rc.Probe("req_accepted")
			}
		}
	}
	// stale commands must have failed (checked for single-operation steps only)
	for _, s := range w.stale {
		if s.step != w.epoch {
			continue
		}
		if s.burst || s.co.Dead {
			// outcome not checked; an accepted FIN still finishes the message
			if !s.failed && s.kind == "FIN" {
				s.d.mc.finMaybe = true
			}
			if cm := w.chans[s.co.ck]; cm != nil && !s.failed {
				cm.Tainted = true // an accepted command the ledger cannot attribute
			}
			continue
		}
		if !s.failed {
			if s.kind == "FIN" {
				s.d.mc.finMaybe = true // somebody's copy of it was finished
			}
			if cm := w.chans[s.co.ck]; cm != nil {
				cm.Tainted = true
			}
			// only a connection without output buffering has certainly seen every
			// frame nsqd sent it; otherwise the command may concern a delivery
			// that still sits in the buffer
			if cm := w.chans[s.co.ck]; s.co.Unbuffered && cm != nil && !cm.Unordered {
				w.violate("C02", "non-holder-answer-accepted", "%s: %s for %s accepted although the message is held by %v",
					s.co.cl.Name, s.kind, s.d.mc.pub.ID, holderName(s.holderBefore))
			}
		} else {
			w.rc.Probe("stale_refused")
			if s.co.cl.Closed() {
				w.violate("C02", "non-fatal-error-closed-conn", "%s closed after a refused %s", s.co.cl.Name, s.kind)
			}
		}
	}
}

func holderName(c *consumer) string {
	if c == nil {
		return "nobody"
	}
	return c.cl.Name
}

// applyVoids marks what an acknowledged empty/delete discarded.
func (w *qWorld) applyVoids() {
	for _, k := range w.sortedChanKeys() {
		c := w.chans[k]
		if !c.pendingVoid {
			continue
		}
		c.pendingVoid = false
		t := w.topic(c.Topic)
		// messages handed to a consumer while the empty was running escaped it
		esc := int64(0)
		for _, mc := range c.msgs {
			for _, d := range mc.dels {
				if d.Step == w.epoch {
					esc++
				}
			}
		}
		for _, co := range w.cons {
			if co.ck == c.Key && co.Subscribed && !co.Unbuffered && (!co.Dead || co.DeadStep >= c.VoidStep) && (co.Rdy > 0 || co.rdyStepMax > 0) {
				c.Tainted = true // an escaped message may sit unseen in its output buffer
			}
		}
		if esc > 0 {
			w.rc.Probe("escaped_empty")
			c.Discarded -= esc
			for _, co := range w.cons {
				if co.ck == c.Key && co.Subscribed && !co.Unbuffered && (!co.Dead || co.DeadStep == w.epoch) {
					c.Tainted = true // more may sit unseen in an output buffer
				}
			}
			if c.Discarded < 0 {
				c.Discarded = 0
				c.Tainted = true
			}
		}
		for _, p := range w.pubList {
			if p.Topic != c.Topic || !p.Acked || p.AckSeq >= c.VoidSeq || p.SendStep >= c.VoidStep {
				continue
			}
			// it certainly had reached the channel: either seen there, or the
			// topic was never paused while it was on its way
			mc := c.msgs[p.Key]
			if mc != nil && len(mc.dels) > 0 && lastDel(mc).Step >= c.VoidStep {
				continue // handed to a consumer while the empty/delete was running: it escaped
			}
			if mc != nil && len(mc.dels) > 0 && lastDel(mc).Answer != "" && lastDel(mc).AnsStep >= c.VoidStep {
				continue // being requeued/finished while the empty/delete ran: in nobody's queue at that moment
			}
			if mc != nil && len(mc.dels) > 0 && lastDel(mc).touchStep > 0 && lastDel(mc).touchStep >= c.VoidStep {
				continue // being touched (taken out and put back) while the empty/delete ran: likewise
			}
			reached := mc != nil && len(mc.dels) > 0
			if !reached && !p.TopicPausedAtSend && !t.pausedBetween(p.SendStep, c.VoidStep) && c.CreatedStep < p.SendStep && c.lastDeleteStep < p.SendStep {
				for _, n := range p.ChansAtPub {
					if n == c.Name {
						reached = true
					}
				}
			}
			// A queued message can be snatched by a delivery pump while the
			// empty runs (the empty zeroes the consumers' in-flight counts
			// first), and the frame may then sit unseen in an output buffer.
			// The discard is therefore only certain if no consumer could become
			// ready, or if the message was certainly in flight at that moment.
			certain := true
			for _, co := range w.cons {
				// (a pause that was sent in the same step as the empty may have taken effect after a pump took the message)
				if co.ck == c.Key && co.Subscribed && (!co.Dead || co.DeadStep >= c.VoidStep) && (co.Rdy > 0 || co.rdyStepMax > 0) && !(c.Paused && c.PausedStep < c.VoidStep) {
					certain = false
				}
			}
			if !certain && mc != nil && len(mc.dels) > 0 {
				d := lastDel(mc)
				if dl, ok := w.deadlineLower(d); ok && d.Answer == "" && !d.Voided && !d.maybeAnswered && time.Now().Before(dl) {
					certain = true
				}
			}
			if reached && !c.Unordered && certain {
				c.discarded[p.Key] = w.epoch
				c.discardedAt[p.Key] = time.Now()
			}
		}
	}
}

func (t *topicModel) pausedBetween(a, b int) bool {
	for _, s := range t.pauseSteps {
		if s >= a && s <= b {
			return true
		}
	}
	return false
}


// ---------------------------------------------------------------- message frames

func isHex16(s string) bool {
	if len(s) != 16 {
		return false
	}
	for i := 0; i < 16; i++ {
		c := s[i]
		if !(c >= '0' && c <= '9' || c >= 'a' && c <= 'f') {
			return false
		}
	}
	return true
}

func (w *qWorld) onMessage(co *consumer, f Frame) {
	rc := w.rc
	wm, err := decodeWireMsg(f.Data)
	if err != nil {
		w.violate("C07", "bad-message-frame", "%s: %v", co.cl.Name, err)
		return
	}
	p := w.pubs[string(wm.Body)]
	if p == nil {
		w.violate("C07", "unknown-body", "%s received a body nobody published (len %d, id %q): %q", co.cl.Name, len(wm.Body), wm.ID, trunc(wm.Body, 80))
		return
	}
	rc.Probe("deliveries")
	step := w.epoch
	if !isHex16(wm.ID) {
		w.violate("C07", "bad-id", "id %q is not 16 hex characters", wm.ID)
	}
	if p.Topic != co.Topic {
		w.violate("C07", "wrong-topic", "message of topic %s delivered on %s", p.Topic, co.ck)
		return
	}
	if p.Rejected {
		w.violate("C09", "rejected-publish-delivered", "message m%06d whose publish was rejected is delivered on %s", p.N, co.ck)
	}
	if p.ID == "" {
		p.ID, p.TS = wm.ID, wm.Timestamp
		lo := p.SendAt.UnixNano()
		hi := time.Now().UnixNano()
		if !p.AckAt.IsZero() {
			hi = p.AckAt.UnixNano()
		}
		if wm.Timestamp < lo || wm.Timestamp > hi {
			w.violate("C07", "timestamp-not-publish-time", "m%06d timestamp %d outside its publish interval [%d,%d]", p.N, wm.Timestamp, lo, hi)
		}
		// uniqueness is per topic incarnation: a deleted and re-created topic
		// has a fresh generator (see DESIGN.md, C12 notes)
		tk := fmt.Sprintf("%s#%d", p.Topic, p.topicEpoch)
		ids := w.idsByTopic[tk]
		if ids == nil {
			ids = map[string]*pubRec{}
			w.idsByTopic[tk] = ids
		}
		if q := ids[wm.ID]; q != nil && q != p {
			w.violate("C12", "duplicate-id", "topic %s handed id %s to m%06d and m%06d", p.Topic, wm.ID, q.N, p.N)
		}
		ids[wm.ID] = p
	} else {
		if p.ID != wm.ID {
			w.violate("C07", "id-changed", "m%06d delivered with id %s, earlier %s", p.N, wm.ID, p.ID)
		}
		if p.TS != wm.Timestamp {
			w.violate("C07", "timestamp-changed", "m%06d delivered with timestamp %d, earlier %d", p.N, wm.Timestamp, p.TS)
		}
	}
	cm := w.channel(co.Topic, co.Channel)
	t := w.topic(co.Topic)
	mc := cm.msgs[p.Key]
	if mc == nil {
		mc = &msgChan{pub: p, ck: cm.Key}
		cm.msgs[p.Key] = mc
	}
	prev := lastDel(mc)
	d := &delivery{mc: mc, cons: co, Att: wm.Attempts, At: f.At, Seq: f.Seq, Step: step, lifetime: w.lifetime}
	rc.Logf("%s <- m%06d id=%s att=%d at=%.3f", co.cl.Name, p.N, wm.ID, wm.Attempts, f.At.Sub(rc.start).Seconds())

	// ---- C08: discarded messages must not come back
	// (a frame that already sat in the connection's output buffer may still arrive within its flush timeout)
	if sl, bounded := co.slack(); bounded {
		if ds, ok := cm.discarded[p.Key]; ok && step > ds && f.At.After(cm.discardedAt[p.Key].Add(sl)) {
			w.violate("C08", "discarded-message-delivered", "m%06d was on %s when it was emptied/deleted (acknowledged in step %d) and is delivered in step %d", p.N, cm.Key, ds, step)
		}
		if td, ok := t.discarded[p.Key]; ok && step > td && f.At.After(t.discardedAt[p.Key].Add(sl)) {
			w.violate("C08", "deleted-topic-message-delivered", "m%06d was published to %s before its deletion (step %d) and is delivered in step %d", p.N, t.Name, td, step)
		}
	}

	// ---- C02: FIN is final
	// Commands name a message by id. If this connection sent a command for
	// this id while this frame may still have been in its output buffer, the
	// command may have been applied to this very delivery ("ghost").
	ghost, touchGhost := false, false
	if T, ok := mc.cmdAt[co]; ok {
		if sl, bounded := co.slack(); !bounded || !f.At.After(T.Add(sl)) {
			ghost, touchGhost = true, true
			rc.Probe("ghost_delivery")
		}
	}
	d.maybeAnswered = ghost
	if !cm.VoidAt.IsZero() && (p.SendSeq < cm.VoidSeq || p.SendStep <= cm.VoidStep) {
		// the frame may have been written to the output buffer before the
		// channel was emptied: the message may or may not still be in flight
		// (published before the empty was sent, or while it was still unanswered)
		if sl, bounded := co.slack(); !bounded || !f.At.After(cm.VoidAt.Add(sl)) {
			d.maybeAnswered = true
		}
	}
	if mc.fin && !ghost && !cm.Unordered {
		w.violate("C02", "delivered-after-fin", "m%06d delivered on %s (attempt %d) after its FIN was accepted", p.N, cm.Key, wm.Attempts)
		w.violate("C05", "finished-message-reappeared", "m%06d delivered on %s after its FIN was accepted", p.N, cm.Key)
	}
	// ---- C02: attempts
	exp := uint16(1)
	prevStep := p.SendStep
	if prev != nil {
		exp = prev.Att + 1
		prevStep = prev.Step
	}
	// receipt order equals send order only if no connection of the channel buffers its output
	strict := !cm.Unordered
	for _, o := range w.cons {
		if o.ck == cm.Key && o.Subscribed && !o.Unbuffered && (!o.Dead || o.DeadStep >= prevStep) {
			strict = false
		}
	}
	if wm.Attempts < exp && !strict {
		rc.Probe("attempts_out_of_order_buffered")
	}
	if prev == nil && p.lifetime != w.lifetime {
		// first sighting here of a message from an earlier daemon lifetime
		// (e.g. a durable channel of an ephemeral topic that was re-created)
		exp = wm.Attempts
	}
	if wm.Attempts != exp && !cm.Unordered && (strict || wm.Attempts > exp) {
		gapOK := false
		if wm.Attempts > exp {
			ends := 0
			for _, s := range cm.ConnEnds {
				if s >= prevStep && s <= step {
					ends++
				}
			}
			for _, o := range w.cons {
				if !o.Unbuffered && o.ck == cm.Key && o.Subscribed && (!o.Dead || o.DeadStep >= prevStep) {
					ends += 1 << 20 // a delivery may sit unseen in its output buffer (and be answered by id before it is seen)
				}
			}
			if int(wm.Attempts-exp) <= ends {
				gapOK = true
				rc.Probe("attempts_gap_explained")
			}
		}
		if !gapOK {
			w.violate("C02", "attempts-sequence", "m%06d on %s delivered with attempts %d, expected %d", p.N, cm.Key, wm.Attempts, exp)
			w.violate("C05", "attempts-not-continuing", "m%06d on %s delivered with attempts %d, expected %d", p.N, cm.Key, wm.Attempts, exp)
		}
	}
	// ---- C02 / C04: not before REQ delay or timeout
	sameLife := prev != nil && prev.lifetime == w.lifetime
	if prev != nil && !prev.Voided && sameLife && !prev.maybeAnswered && !cm.Unordered && !touchGhost && (strict || prev.Att < wm.Attempts) {
		switch {
		case prev.Answer == "req" && !prev.AnsKnown:
			// sent in this very step, outcome not known yet: nothing can be concluded
		case prev.Answer == "req" && prev.AnsOK:
			delay := prev.ReqDelay
			if max := ms(w.cfg.MaxReqTimeoutMs); delay > max {
				delay = max
			}
			due := prev.AnsAt.Add(delay)
			if f.At.Before(due) {
				w.violate("C04", "requeue-early", "m%06d on %s requeued at %v with delay %v, delivered again at %v", p.N, cm.Key, prev.AnsAt.Sub(rc.start), prev.ReqDelay, f.At.Sub(rc.start))
			}
			rc.Probe("redelivery_after_req")
		case prev.fateUnknown:
		default:
			// previous delivery unanswered (or its answer was refused): only a timeout may release it
			if dl, ok := w.deadlineLower(prev); ok {
				if f.At.Before(dl) {
					w.violate("C02", "redelivered-while-held", "m%06d on %s given to %s at %v, to %s at %v, but the first holder's timeout cannot expire before %v",
						p.N, cm.Key, prev.cons.cl.Name, prev.At.Sub(rc.start), co.cl.Name, f.At.Sub(rc.start), dl.Sub(rc.start))
					w.violate("C04", "timeout-early", "m%06d on %s redelivered at %v, timeout not before %v", p.N, cm.Key, f.At.Sub(rc.start), dl.Sub(rc.start))
				}
				rc.Probe("redelivery_after_timeout")
			}
		}
	}
	if prev == nil && p.DeferMs > 0 && w.cfg.MemQueueSize >= 1000 && p.lifetime == w.lifetime {
		dms := p.DeferMs
		due := p.SendAt.Add(ms(dms))
		if f.At.Before(due) {
			w.violate("C04", "deferred-early", "m%06d published at %v with defer %dms delivered at %v", p.N, p.SendAt.Sub(rc.start), dms, f.At.Sub(rc.start))
		}
		rc.Probe("deferred_delivery")
	}

	// ---- C03: CLS, pause, RDY
	if co.Closing && co.ClsStep < step {
		w.violate("C03", "message-after-cls", "%s received m%06d after CLS was acknowledged", co.cl.Name, p.N)
	}
	if cm.Paused && cm.PausedStep < step && cm.Exists {
		w.violate("C03", "message-on-paused-channel", "%s received m%06d while %s is paused (since step %d)", co.cl.Name, p.N, cm.Key, cm.PausedStep)
	}
	if t.Paused && t.PauseStep < p.SendStep && p.TopicPausedAtSend && prev == nil && p.lifetime == w.lifetime {
		w.violate("C03", "paused-topic-handed-message", "m%06d published while topic %s was paused (since step %d) reached channel %s", p.N, t.Name, t.PauseStep, cm.Key)
	}
	if w.enforce["C03"] && cm.VoidStep != step && co.SubStep <= step {
		R := co.Rdy
		if co.rdyStepMax > R {
			R = co.rdyStepMax
		}
		U := 0
		bounded := true
		for _, x := range co.Dels {
			if x.Answer != "" || x.Voided || lastDel(x.mc) != x || x.maybeAnswered {
				continue
			}
			if x.Step == cm.VoidStep && cm.VoidSeq != 0 {
				// handed out in the very epoch in which the channel was emptied: whether before it (then it
				// is gone, and rightly no longer counted) or after it is not known
				continue
			}
			if sl, ok := co.slack(); ok && !cm.VoidAt.IsZero() && !x.At.After(cm.VoidAt.Add(sl)) && x.Step > cm.VoidStep {
				// seen after the channel was emptied, but within this connection's flush allowance: the frame may
				// have been in the output buffer since before the empty (then the message is gone)
				continue
			}
			dl, ok := w.deadlineLower(x)
			if !ok {
				bounded = false
				break
			}
			if f.At.Before(dl) {
				U++
			}
		}
		if bounded && int64(U) >= R {
			w.violate("C03", "rdy-exceeded", "%s received m%06d with RDY %d while %d earlier messages are unanswered and unexpired", co.cl.Name, p.N, R, U)
		}
		rc.Probe("rdy_checked")
	}
	if _, was := cm.discarded[p.Key]; was && !p.AckAt.IsZero() && p.AckSeq < cm.VoidSeq && step > cm.discarded[p.Key] && !rc.Failed() {
		// Within the flush allowance: either the frame left for the output
		// buffer before the empty/delete (the message is gone) or the message
		// was handed over while the empty ran (it escaped and is in flight).
		// Both are legitimate; nothing more is claimed about this message.
		d.maybeAnswered = true
		delete(cm.discarded, p.Key)
		cm.Tainted = true
		rc.Probe("buffered_frame_of_discarded_message")
	}
	mc.dels = append(mc.dels, d)
	// keep deliveries ordered by attempts (receipt order can differ from send
	// order when a connection buffers its output without a flush timer)
	for i := len(mc.dels) - 1; i > 0 && mc.dels[i-1].Att > mc.dels[i].Att && mc.dels[i-1].lifetime == mc.dels[i].lifetime; i-- {
		mc.dels[i-1], mc.dels[i] = mc.dels[i], mc.dels[i-1]
	}
	co.Dels = append(co.Dels, d)
}


func trunc(b []byte, n int) []byte {
	if len(b) > n {
		return b[:n]
	}
	return b
}

// ---------------------------------------------------------------- stats laws (C13) and C08 state checks

func (w *qWorld) allFlushed() bool {
	for _, co := range w.cons {
		if co.Dead || !co.Subscribed {
			continue
		}
		if !co.Unbuffered && w.sinceLastAdvance() < co.OBT {
			return false
		}
		if co.OBT < 0 {
			return false
		}
	}
	return true
}

func (w *qWorld) sinceLastAdvance() time.Duration { return w.lastAdvance }

func (w *qWorld) checkStats() {
	if w.n == nil {
		return
	}
	doc, resp := w.getStats("")
	if doc == nil {
		w.violate("C13", "stats-unavailable", "GET /stats failed: %d %v", resp.Status, resp.Err)
		w.violate("C08", "stats-unavailable", "GET /stats failed: %d %v", resp.Status, resp.Err)
		return
	}
	w.rc.Probe("stats_snapshots")
	// every count non-negative (C13, C08 "counters wrong")
	for _, t := range doc.Topics {
		if t.Depth < 0 || t.BackendDepth < 0 {
			w.violate("C13", "negative-count", "topic %s depth %d backend %d", t.TopicName, t.Depth, t.BackendDepth)
		}
		for _, c := range t.Channels {
			if c.Depth < 0 || c.BackendDepth < 0 || c.InFlightCount < 0 || c.DeferredCount < 0 {
				w.violate("C13", "negative-count", "channel %s/%s depth %d inflight %d deferred %d", t.TopicName, c.ChannelName, c.Depth, c.InFlightCount, c.DeferredCount)
			}
			for _, cl := range c.Clients {
				if cl.InFlightCount < 0 || cl.ReadyCount < 0 {
					w.violate("C13", "negative-count", "client %s on %s/%s in_flight %d ready %d", cl.ClientID, t.TopicName, c.ChannelName, cl.InFlightCount, cl.ReadyCount)
					w.violate("C08", "negative-count", "client %s on %s/%s in_flight %d ready %d", cl.ClientID, t.TopicName, c.ChannelName, cl.InFlightCount, cl.ReadyCount)
				}
			}
		}
	}
	// an acknowledged subscription is a real one: the connection is listed as
	// a client of that channel of the live topic (C08: subscribe racing an
	// ephemeral delete must end up on the new topic, not on the dying one)
	for _, co := range w.cons {
		if !co.Subscribed || co.Dead || co.expectClose || co.fatalSent || co.SubStep >= w.epoch || co.cl.Closed() {
			continue
		}
		found := false
		if sc := doc.channel(co.Topic, co.Channel); sc != nil {
			for _, cl := range sc.Clients {
				if cl.ClientID == co.cl.Name {
					found = true
				}
			}
		}
		if !found {
			w.violate("C08", "subscription-not-registered", "%s subscribed to %s (acknowledged in step %d, connection open) but /stats does not list it as a client of that channel", co.cl.Name, co.ck, co.SubStep)
			w.violate("C01", "subscription-not-registered", "%s subscribed to %s (acknowledged in step %d, connection open) but /stats does not list it as a client of that channel", co.cl.Name, co.ck, co.SubStep)
		}
		w.rc.Probe("subscriptions_confirmed")
	}
	// registry: model vs stats (C08)
	for name, t := range w.topics {
		st := doc.topic(name)
		if t.Exists && st == nil && !t.Tainted && !t.Ephemeral {
			w.violate("C08", "topic-missing", "topic %s exists in the model but not in /stats", name)
		}
		if !t.Exists && st != nil && !t.Tainted && !w.anyUncertain(name) {
			w.violate("C08", "deleted-topic-present", "topic %s was deleted but is in /stats", name)
		}
		if st != nil && t.Exists && !t.Tainted && st.Paused != t.Paused {
			w.violate("C08", "topic-paused-flag", "topic %s paused=%v, model %v", name, st.Paused, t.Paused)
		}
	}
	for _, k := range w.sortedChanKeys() {
		c := w.chans[k]
		if c.Uncertain {
			continue
		}
		sc := doc.channel(c.Topic, c.Name)
		if c.Exists && sc == nil {
			if c.Ephemeral && w.liveConsumersOf(c.Key) == 0 {
				continue
			}
			w.violate("C08", "channel-missing", "channel %s exists in the model but not in /stats", k)
			continue
		}
		if !c.Exists && sc != nil {
			w.violate("C08", "deleted-channel-present", "channel %s was deleted but is in /stats", k)
			continue
		}
		if sc == nil {
			continue
		}
		if c.Ephemeral && w.liveConsumersOf(c.Key) == 0 && c.CreatedStep < w.epoch && c.hadConsumer {
			w.violate("C08", "ephemeral-channel-lingers", "ephemeral channel %s has no consumer left but is still in /stats", k)
		}
		if sc.Paused != c.Paused {
			w.violate("C08", "channel-paused-flag", "channel %s paused=%v, model %v", k, sc.Paused, c.Paused)
		}
		if int(sc.ClientCount) != w.liveConsumersOf(c.Key) {
			w.violate("C13", "client-count", "channel %s client_count %d, model %d", k, sc.ClientCount, w.liveConsumersOf(c.Key))
		}
		// conservation law
		if !c.Tainted && !c.Sampled && !c.Ephemeral && !w.topic(c.Topic).Ephemeral {
			have := sc.Depth + sc.InFlightCount + sc.DeferredCount + c.Fins + c.Discarded
			if sc.MessageCount != have {
				w.violate("C13", "channel-conservation", "channel %s message_count %d != depth %d + in_flight %d + deferred %d + finished %d + discarded %d",
					k, sc.MessageCount, sc.Depth, sc.InFlightCount, sc.DeferredCount, c.Fins, c.Discarded)
			}
			if sc.RequeueCount != c.Reqs {
				w.violate("C13", "requeue-count", "channel %s requeue_count %d, consumers' accepted REQs %d", k, sc.RequeueCount, c.Reqs)
			}
			w.rc.Probe("conservation_checked")
		}
		// per consumer
		for _, co := range w.cons {
			if co.ck != k || co.Dead || !co.Subscribed {
				continue
			}
			var scl *statsClient
			for i := range sc.Clients {
				if sc.Clients[i].ClientID == co.cl.Name {
					scl = &sc.Clients[i]
				}
			}
			if scl == nil {
				w.violate("C13", "client-missing", "consumer %s not listed under %s", co.cl.Name, k)
				continue
			}
			wantRdy := co.Rdy
			if co.Closing {
				wantRdy = 0
			}
			if scl.ReadyCount != wantRdy {
				w.violate("C13", "client-ready-count", "%s ready_count %d, last RDY %d", co.cl.Name, scl.ReadyCount, wantRdy)
			}
			if c.Tainted {
				continue
			}
			if scl.FinishCount != co.Fins {
				w.violate("C13", "client-finish-count", "%s finish_count %d, accepted FINs %d", co.cl.Name, scl.FinishCount, co.Fins)
			}
			if scl.RequeueCount != co.Reqs {
				w.violate("C13", "client-requeue-count", "%s requeue_count %d, accepted REQs %d", co.cl.Name, scl.RequeueCount, co.Reqs)
			}
			{
				// frames may still sit in the output buffer of a buffered connection
				unseen := scl.MessageCount - int64(len(co.Dels))
				if unseen < 0 || (co.Unbuffered && unseen != 0) {
					w.violate("C13", "client-message-count", "%s message_count %d, frames received %d", co.cl.Name, scl.MessageCount, len(co.Dels))
				}
				held, sure := 0, 0
				for _, d := range co.Dels {
					if d.Voided || (d.Answer != "" && d.AnsOK) || lastDel(d.mc) != d {
						continue
					}
					if d.Answer != "" && !d.AnsOK {
						continue // refused: it had timed out (or was discarded)
					}
					held++
					if dl, ok := w.deadlineLower(d); ok && time.Now().Before(dl) && !d.maybeAnswered {
						sure++
					}
				}
				if scl.InFlightCount > int64(held)+unseen || scl.InFlightCount < int64(sure) {
					w.violate("C13", "client-in-flight-count", "%s in_flight_count %d, model between %d and %d", co.cl.Name, scl.InFlightCount, sure, held)
				}
			}
		}
	}
	// at quiescence no connection counts more messages in flight than its channel
	// holds in flight altogether (a leaked count starves the connection: with
	// RDY <= count it is never sent anything again)
	for _, t := range doc.Topics {
		for _, c := range t.Channels {
			// at quiescence nothing waits in a channel's queue while one of its consumers is able to receive
			// (subscribed, RDY above its in-flight count, channel not paused): a delivery pump that was not
			// woken after the event that made its consumer ready again leaves exactly this picture
			if !w.cfg.Topology && !c.Paused && c.Depth > 0 {
				for _, cl := range c.Clients {
					if cl.State == 3 && cl.ReadyCount > 0 && cl.InFlightCount < cl.ReadyCount {
						for _, prop := range []string{"C03", "C08", "C13"} {
							w.violate(prop, "ready-consumer-not-served", "channel %s/%s holds %d queued messages at a quiescent moment although %s is subscribed with RDY %d and %d in flight", t.TopicName, c.ChannelName, c.Depth, cl.ClientID, cl.ReadyCount, cl.InFlightCount)
						}
					}
				}
				w.rc.Probe("queue_vs_ready_consumers_checked")
			}
			sum := int64(0)
			for _, cl := range c.Clients {
				sum += cl.InFlightCount
			}
			if sum > c.InFlightCount {
				w.violate("C13", "client-in-flight-leak", "channel %s/%s has %d messages in flight but its connections count %d", t.TopicName, c.ChannelName, c.InFlightCount, sum)
				w.violate("C03", "client-in-flight-leak", "channel %s/%s has %d messages in flight but its connections count %d", t.TopicName, c.ChannelName, c.InFlightCount, sum)
				w.violate("C08", "client-in-flight-leak", "channel %s/%s has %d messages in flight but its connections count %d", t.TopicName, c.ChannelName, c.InFlightCount, sum)
			}
			// ... and not fewer either, once the messages that were in flight to connections that have ended
			// must have timed out: every message in flight belongs to a connected consumer then, and that
			// consumer counts it (a count that lost a message lets the connection receive beyond its RDY)
			if cm := w.chans[t.TopicName+"/"+c.ChannelName]; cm != nil && cm.Exists && !cm.Uncertain && sum < c.InFlightCount &&
				time.Since(cm.lastConnEnd) > ms(w.cfg.MaxMsgTimeoutMs)+w.lateSlack() && time.Since(w.lastRestartAt) > ms(w.cfg.MaxMsgTimeoutMs)+w.lateSlack() {
				w.violate("C13", "client-in-flight-undercount", "channel %s/%s has %d messages in flight, its connected consumers count only %d, and no consumer connection has ended for %v", t.TopicName, c.ChannelName, c.InFlightCount, sum, time.Since(cm.lastConnEnd))
				w.violate("C03", "client-in-flight-undercount", "channel %s/%s has %d messages in flight, its connected consumers count only %d, and no consumer connection has ended for %v", t.TopicName, c.ChannelName, c.InFlightCount, sum, time.Since(cm.lastConnEnd))
				w.violate("C08", "client-in-flight-undercount", "channel %s/%s has %d messages in flight, its connected consumers count only %d, and no consumer connection has ended for %v", t.TopicName, c.ChannelName, c.InFlightCount, sum, time.Since(cm.lastConnEnd))
			}
		}
	}
	// topic counters
	for name, t := range w.topics {
		st := doc.topic(name)
		if st == nil || !t.Exists || t.Tainted {
			continue
		}
		if st.MessageCount < t.AckedMsgs || st.MessageCount > t.AckedMsgs+t.UnknownMsgs {
			w.violate("C13", "topic-message-count", "topic %s message_count %d, acknowledged publishes %d (+%d unknown)", name, st.MessageCount, t.AckedMsgs, t.UnknownMsgs)
		}
		if st.MessageBytes < t.AckedBytes || st.MessageBytes > t.AckedBytes+t.UnknownBytes {
			w.violate("C13", "topic-message-bytes", "topic %s message_bytes %d, acknowledged %d (+%d unknown)", name, st.MessageBytes, t.AckedBytes, t.UnknownBytes)
		}
	}
	w.checkStatsRenderings(doc)
	w.lastStats = doc
}

// resolveUncertain: where a burst made the existence of an object depend on
// the interleaving, adopt what /stats reports at the next quiescent point
// (counters of such objects stay tainted).
func (w *qWorld) resolveUncertain() {
	need := false
	for _, t := range w.topics {
		need = need || t.ExistUnknown
	}
	for _, c := range w.chans {
		need = need || c.Uncertain
	}
	if !need || w.n == nil {
		return
	}
	doc, _ := w.getStats("")
	if doc == nil {
		return
	}
	w.rc.Probe("uncertain_resolved")
	for _, k := range w.sortedChanKeys() {
		c := w.chans[k]
		if !c.Uncertain {
			continue
		}
		c.Uncertain = false
		c.notListedBefore = time.Now() // it may have been deleted and created again: a new object, listed at the next refresh
		sc := doc.channel(c.Topic, c.Name)
		if sc != nil && !c.Exists {
			c.CreatedSeq = w.rc.Net.NextSeq()
			c.CreatedStep = w.epoch
			c.msgs = map[string]*msgChan{}
			c.Fins, c.Reqs, c.Discarded = 0, 0, 0
		}
		if sc == nil && c.Exists {
			c.lastDeleteStep = w.epoch
			c.Epoch++
			c.VoidSeq = w.rc.Net.NextSeq()
			c.VoidStep = w.epoch
		}
		c.Exists = sc != nil
		c.Tainted = true
		if w.liveConsumersOf(c.Key) == 0 {
			c.hadConsumer = false // whichever incarnation this is, nobody has left it yet
		}
		if sc == nil && w.topic(c.Topic).Ephemeral {
			w.topic(c.Topic).ExistUnknown = true // settled from /stats just below
		}
		if sc != nil {
			c.Paused = sc.Paused
			w.topic(c.Topic).Exists = true
		}
	}
	for name, t := range w.topics {
		if t.ExistUnknown {
			t.ExistUnknown = false
			ex := doc.topic(name) != nil
			if ex && !t.Exists {
				t.Exists = true
				t.CreatedStep = w.epoch
			}
			t.Exists = ex
			t.Tainted = true // counters of this incarnation are not known exactly
			if st := doc.topic(name); st != nil {
				t.Paused = st.Paused
			}
		}
	}
}

func (w *qWorld) anyUncertain(topic string) bool {
	if t := w.topics[topic]; t != nil && t.ExistUnknown {
		return true
	}
	for _, c := range w.chans {
		if c.Topic == topic && c.Uncertain {
			return true
		}
	}
	return false
}

func (w *qWorld) liveConsumersOf(ck string) int {
	n := 0
	for _, co := range w.cons {
		if co.ck == ck && co.Subscribed && !co.Dead {
			n++
		}
	}
	return n
}

// checkStatsRenderings: text form and filters report the same numbers (C13).
func (w *qWorld) checkStatsRenderings(doc *statsDoc) {
	if !w.enforce["C13"] {
		return
	}
	resp := httpDo(w.rc, "GET", w.httpAddr, "/stats", nil, nil, nil, 60*time.Second)
	if resp.Err != nil || resp.Status != 200 {
		w.violate("C13", "stats-text-unavailable", "GET /stats (text): %d %v", resp.Status, resp.Err)
		return
	}
	text := string(resp.Body)
	for _, t := range doc.Topics {
		want := fmt.Sprintf("[%-15s] depth: %-5d be-depth: %-5d msgs: %-8d", t.TopicName, t.Depth, t.BackendDepth, t.MessageCount)
		if !strings.Contains(text, want) {
			w.violate("C13", "text-json-mismatch", "text /stats lacks %q", want)
		}
		for _, c := range t.Channels {
			want := fmt.Sprintf("[%-25s] depth: %-5d be-depth: %-5d inflt: %-4d def: %-4d re-q: %-5d timeout: %-5d msgs: %-8d",
				c.ChannelName, c.Depth, c.BackendDepth, c.InFlightCount, c.DeferredCount, c.RequeueCount, c.TimeoutCount, c.MessageCount)
			if !strings.Contains(text, want) {
				w.violate("C13", "text-json-mismatch", "text /stats lacks %q", want)
			}
		}
	}
	// filters
	for _, t := range doc.Topics {
		fd, r := w.getStats("&topic=" + url.QueryEscape(t.TopicName))
		if fd == nil {
			w.violate("C13", "stats-filter-unavailable", "topic filter: %d %v", r.Status, r.Err)
			continue
		}
		if len(fd.Topics) != 1 || fd.Topics[0].TopicName != t.TopicName || fd.Topics[0].MessageCount != t.MessageCount ||
			fd.Topics[0].Depth != t.Depth || len(fd.Topics[0].Channels) != len(t.Channels) {
			w.violate("C13", "filter-mismatch", "topic filter %s reports %+v, unfiltered %+v", t.TopicName, fd.Topics, t)
		}
		for _, c := range t.Channels {
			fd, r := w.getStats("&topic=" + url.QueryEscape(t.TopicName) + "&channel=" + url.QueryEscape(c.ChannelName) + "&include_clients=false")
			if fd == nil {
				w.violate("C13", "stats-filter-unavailable", "channel filter: %d %v", r.Status, r.Err)
				continue
			}
			if len(fd.Topics) != 1 || len(fd.Topics[0].Channels) != 1 {
				w.violate("C13", "filter-mismatch", "channel filter %s/%s returned %d topics", t.TopicName, c.ChannelName, len(fd.Topics))
				continue
			}
			g := fd.Topics[0].Channels[0]
			if g.Depth != c.Depth || g.InFlightCount != c.InFlightCount || g.DeferredCount != c.DeferredCount || g.MessageCount != c.MessageCount ||
				g.RequeueCount != c.RequeueCount || g.TimeoutCount != c.TimeoutCount || g.ClientCount != c.ClientCount || len(g.Clients) != 0 {
				w.violate("C13", "filter-mismatch", "channel filter %s/%s reports %+v, unfiltered %+v", t.TopicName, c.ChannelName, g, c)
			}
		}
	}
}

// checkDataDir: deleted and ephemeral objects leave no files (C08).
func (w *qWorld) checkDataDir() {
	files := listDataFiles(w.rc.Dir)
	for _, f := range files {
		if i := strings.Index(f, ".diskqueue."); i >= 0 && strings.HasSuffix(f[:i], "#ephemeral") {
			// <topic>.diskqueue.* of an ephemeral topic, or <topic>:<channel>.diskqueue.* of an ephemeral channel
			w.violate("C08", "ephemeral-file", "ephemeral object has a file on disk: %s", f)
		}
		if !strings.Contains(f, ".diskqueue.") || strings.HasSuffix(f, ".bad") {
			continue // *.bad files are left behind by go-diskqueue itself (outside nsqio/nsq)
		}
		name := f[:strings.Index(f, ".diskqueue.")]
		var topic, ch string
		if i := strings.IndexByte(name, ':'); i >= 0 {
			topic, ch = name[:i], name[i+1:]
		} else {
			topic = name
		}
		t := w.topics[topic]
		if t != nil && !t.Exists && !t.Tainted && !w.anyUncertain(topic) {
			w.violate("C08", "deleted-topic-files", "topic %s was deleted but %s is still on disk", topic, f)
		}
		if ch != "" {
			if c := w.chans[topic+"/"+ch]; c != nil && !c.Exists && !c.Uncertain && (t == nil || !t.Tainted) {
				w.violate("C08", "deleted-channel-files", "channel %s/%s was deleted but %s is still on disk", topic, ch, f)
			}
		}
	}
	if b, err := os.ReadFile(filepath.Join(w.rc.Dir, "nsqd.dat")); err == nil {
		if strings.Contains(string(b), "#ephemeral") {
			w.violate("C08", "ephemeral-in-metadata", "nsqd.dat lists an ephemeral object: %s", b)
		}
	}
}

// ---------------------------------------------------------------- end of run: drain and conservation (C01)

func (w *qWorld) owed() []*msgChan {
	var out []*msgChan
	smallMem := w.cfg.MemQueueSize < 1000
	for _, p := range w.pubList {
		if !p.Acked {
			continue
		}
		t := w.topic(p.Topic)
		if t.VoidSeq > p.SendSeq || (t.VoidStep >= p.SendStep && t.VoidSeq != 0) || (t.Ephemeral && smallMem) {
			continue // emptied/deleted after (or concurrently with) the publish
		}
		for _, name := range p.ChansAtPub {
			c := w.chans[p.Topic+"/"+name]
			if c == nil || !c.Exists || c.Uncertain || c.Sampled || c.VoidSeq > p.SendSeq || (c.VoidStep >= p.SendStep && c.VoidSeq != 0) || (c.Ephemeral && smallMem) {
				continue
			}
			if c.Ephemeral || t.Ephemeral {
				// ephemeral objects vanish with their last consumer; only owed while they never went away
				if c.ephemeralGone || t.ephemeralGone {
					continue
				}
			}
			mc := c.msgs[p.Key]
			if mc == nil {
				mc = &msgChan{pub: p, ck: c.Key}
				c.msgs[p.Key] = mc
			}
			if mc.fin || mc.finMaybe {
				continue
			}
			out = append(out, mc)
		}
	}
	return out
}


// drain: faults stop, everything is unpaused, every channel gets a consumer
// that finishes whatever it receives. Owed messages must all be finished
// within the bound (C01 liveness half).
func (w *qWorld) drain() {
	rc := w.rc
	rc.Logf("---- drain")
	w.settle()
	w.afterSettle()
	if w.n == nil {
		return
	}
	for name, t := range w.topics {
		if t.Exists && t.Paused {
			f := w.opAdmin(Op{Kind: "admin", S: "unpause_topic", A: w.topicIdx(name)})
			f()
		}
	}
	for _, k := range w.sortedChanKeys() {
		c := w.chans[k]
		if c.Exists && c.Paused {
			f := w.opAdmin(Op{Kind: "admin", S: "unpause_channel", A: w.topicIdx(c.Topic), B: w.chanIdx(c.Name)})
			f()
		}
	}
	w.settle()
	// old consumers stop: whatever they hold will time out
	for _, co := range w.cons {
		if !co.Dead {
			co.cl.Close()
			w.consumerDied(co)
		}
	}
	w.settle()
	var drainers []*consumer
	for _, k := range w.sortedChanKeys() {
		c := w.chans[k]
		if !c.Exists || c.Uncertain {
			continue
		}
		if c.Ephemeral {
			c.ephemeralGone = true // its consumers are gone now
			continue
		}
		before := len(w.cons)
		w.opSub(Op{A: w.topicIdx(c.Topic), B: w.chanIdx(c.Name), C: w.cfg.MaxRdy, D: 1})
		if len(w.cons) > before && w.cons[before].Subscribed {
			drainers = append(drainers, w.cons[before])
		}
	}
	w.settle()
	bound := ms(w.cfg.MaxMsgTimeoutMs) + ms(w.cfg.MaxReqTimeoutMs) + 2*ms(w.cfg.ScanRefreshMs) + 10*time.Second
	// The timeout/deferred scan visits a random subset of the channels per
	// tick. With fewer selections than channels a given channel is visited
	// with probability sel/n per tick; allow enough ticks for a miss
	// probability below 1e-12.
	nch := 0
	for _, c := range w.chans {
		if c.Exists || c.Uncertain {
			nch++
		}
	}
	if nch > w.cfg.ScanSelCount && w.cfg.ScanSelCount > 0 {
		ticks := 28 * (nch + w.cfg.ScanSelCount - 1) / w.cfg.ScanSelCount
		bound += time.Duration(ticks) * ms(w.cfg.ScanIntervalMs)
	}
	stepD := bound / 40
	var spent time.Duration
	for {
		w.beginStep()
		w.settle()
		// finish everything that arrives without letting time pass (a drainer
		// with a small RDY gets the backlog one message at a time)
		for i := 0; i < 2000; i++ {
			sent := 0
			for _, co := range drainers {
				for _, d := range heldOf(co) {
					d.Answer, d.AnsAt, d.AnsStep = "fin", time.Now(), w.epoch
					d.mc.noteCmd(co)
					co.cl.Cmd("FIN "+d.mc.pub.ID, nil)
					sent++
				}
			}
			if sent == 0 {
				break
			}
			w.beginStep()
			w.settle()
			if rc.Failed() {
				return
			}
		}
		if rc.Failed() {
			return
		}
		owed := w.owed()
		if len(owed) == 0 {
			rc.Logf("drained after %v", spent)
			break
		}
		if spent >= bound {
			mc := owed[0]
			st := "never delivered"
			if d := lastDel(mc); d != nil {
				st = fmt.Sprintf("last delivered to %s at %v (attempt %d, answer %q ok=%v)", d.cons.cl.Name, d.At.Sub(rc.start), d.Att, d.Answer, d.AnsOK)
			}
			w.violate("C04", "not-redelivered-in-time", "%d message(s) whose timeout/delay has long passed were not delivered %v after faults stopped; first: m%06d on %s: %s", len(owed), spent, mc.pub.N, mc.ck, st)
			w.violate("C01", "message-lost", "%d acknowledged message(s) not finished %v after faults stopped; first: m%06d (%s via %s, defer %dms) on %s: %s",
				len(owed), spent, mc.pub.N, mc.pub.ID, mc.pub.Via, mc.pub.DeferMs, mc.ck, st)
			for i, o := range owed {
				if i < 6 {
					rc.Logf("owed: m%06d on %s via %s pubLifetime=%d readyAtExit=%v acked=%v dels=%d", o.pub.N, o.ck, o.pub.Via, o.pub.lifetime, w.readyAtExit[o.ck], o.pub.Acked, len(o.dels))
				}
			}
			explained := w.lifetime > 1
			for _, o := range owed {
				if !w.readyAtExit[o.ck] || o.pub.lifetime == w.lifetime {
					explained = false
				}
			}
			if explained {
				w.violate("C05", "lost-at-exit-taken-by-consumer-pump", "%d acknowledged message(s) not delivered after restart, %d message(s) were taken from a closing channel by a delivery pump whose connection was already closed; first: m%06d on %s: %s", len(owed), w.stolenAtExit, mc.pub.N, mc.ck, st)
			} else if w.lifetime > 1 {
				w.violate("C05", "message-lost-across-restart", "%d acknowledged message(s) not delivered after restart; first: m%06d on %s: %s", len(owed), mc.pub.N, mc.ck, st)
			}
			return
		}
		time.Sleep(stepD)
		spent += stepD
		w.lastAdvance = stepD
	}
}

func (w *qWorld) topicIdx(name string) int64 {
	for i, t := range w.cfg.Topics {
		if t == name {
			return int64(i)
		}
	}
	return 0
}
func (w *qWorld) chanIdx(name string) int64 {
	for i, c := range w.cfg.Channels {
		if c == name {
			return int64(i)
		}
	}
	return 0
}

// finalChecks run after the drain.
func (w *qWorld) finalChecks() {
	// C12: ids follow real-time order of publishes on a topic
	byTopic := map[string][]*pubRec{}
	for _, p := range w.pubList {
		if p.Acked && p.ID != "" {
			byTopic[p.Topic] = append(byTopic[p.Topic], p)
		}
	}
	for topic, ps := range byTopic {
		sort.Slice(ps, func(i, j int) bool { return ps[i].SendSeq < ps[j].SendSeq })
		for i, a := range ps {
			for _, b := range ps[i+1:] {
				if a.topicEpoch != b.topicEpoch {
					continue
				}
				ordered := a.AckSeq < b.SendSeq || (a.Batch != 0 && a.Batch == b.Batch && a.BatchPos < b.BatchPos)
				if ordered && !(a.ID < b.ID) {
					w.violate("C12", "id-order", "topic %s: m%06d (id %s) was acknowledged before m%06d (id %s) was sent, ids do not increase", topic, a.N, a.ID, b.N, b.ID)
				}
			}
		}
		w.rc.ProbeN("ids_compared", int64(len(ps)))
	}
}

// ---------------------------------------------------------------- graceful restart (C05)

func (w *qWorld) opRestart(op Op) {
	rc := w.rc
	if w.n == nil {
		return
	}
	if op.A >= 2 {
		// quiet variant: every consumer first lowers RDY to 0, so no delivery
		// pump can take anything while the channels are flushed (this keeps the
		// known finding C05-pump-takes-message-at-exit out of the way)
		w.settleIfBurst()
		for _, co := range w.cons {
			if co.Subscribed && !co.Dead && !co.Closing && co.Rdy != 0 {
				w.setRdy(co, 0)
			}
		}
		w.settle()
		w.afterSettle()
		w.beginStep()
		rc.Probe("quiet_exit")
	}
	switch op.A {
	case 0, 2, 4:
		w.settleIfBurst()
	case 3:
		// publishes in progress while the shutdown is requested
		for i := int64(0); i < op.C; i++ {
			if f := w.opPub(Op{Uid: op.Uid*16 + int(i), Kind: "pub", A: i % 3, B: op.B, C: []int64{0, 1, 3, 4}[int(i+op.B)%4], D: 3}); f != nil {
				w.pending = append(w.pending, f)
			}
		}
		w.inBurst = true
		rc.Probe("exit_inside_burst")
	default:
		rc.Probe("exit_inside_burst")
	}
	// a publisher that keeps one HTTP connection open: a request of its own is answered before the shutdown
	// is requested (to a topic that does not exist yet, if there is one: its registration keeps the lookup
	// loop busy), the next one is sent while the daemon is still shutting down
	var keep net.Conn
	var keepRd *bufio.Reader
	lateTopic := ""
	if op.A == 4 {
		if w.cfg.DeadLookupd == 1 && !w.mainStart.IsZero() {
			// to the lookup loop's next heartbeat (every 15 s from the daemon's start): with an nsqlookupd that
			// never answers, the loop is then busy for a second, and so is the shutdown that waits for it
			hb := 15 * time.Second
			k := time.Since(w.mainStart)/hb + 1
			w.exec(Op{Uid: op.Uid*16 + 13, Kind: "adv", A: int64(time.Until(w.mainStart.Add(k*hb)) / time.Millisecond)})
			if rc.Failed() || w.n == nil {
				return
			}
			w.beginStep()
		}
		// the topic of the late publish must not exist (a topic that is there is closed by then and refuses)
		lateTopic = w.freshTopic(op.B)
		if t := w.topics[lateTopic]; t != nil && (t.Exists || t.ExistUnknown) {
			if f := w.opAdmin(Op{Uid: op.Uid*16 + 12, Kind: "admin", S: "delete_topic", A: w.topicIdx(lateTopic)}); f != nil {
				f()
			}
			w.settle()
			w.afterSettle()
			w.beginStep()
		}
		if c, err := rc.Net.DialFrom(nil, w.httpAddr); err == nil {
			keep, keepRd = c, bufio.NewReader(c)
			if !w.keepAlivePing(keep, keepRd) {
				keep.Close()
				keep = nil
			}
		}
		w.inBurst = true
	}
	rc.Logf("---- graceful exit requested (pending=%d)", len(w.pending))
	n := w.n
	// channels that have a connected consumer able to receive (RDY > 0) when
	// the shutdown is requested: its delivery pump may still be running while
	// the channel is flushed (known finding C05/pump-takes-message-at-exit)
	if w.readyAtExit == nil {
		w.readyAtExit = map[string]bool{}
	}
	for _, co := range w.cons {
		if co.Subscribed && (!co.Dead || co.DeadStep >= w.epoch) && (co.Rdy > 0 || co.rdyStepMax > 0) && !co.Closing {
			w.readyAtExit[co.ck] = true
		}
	}
	// somebody who connected and never said anything (a port probe, a health check, a stalled client): the
	// harness does not close this connection - the daemon has to get past it on its own
	var silent net.Conn
	if op.C%2 == 1 {
		if c, err := rc.Net.DialFrom(nil, w.tcpAddr); err == nil {
			silent = c
			c.Write([]byte("  V"[:int(op.B)%4]))
			synctest.Wait()
			rc.Fault("silent_connection_at_exit")
		}
	}
	pumpErr0 := rc.probes["log_messagepump_error"]
	exitDone := make(chan struct{})
	go func() { n.Exit(); close(exitDone) }()
	for _, f := range w.pending {
		if f != nil {
			f()
		}
	}
	w.pending = nil
	// Administrative operations that were still in progress when the shutdown was
	// requested were not "acknowledged before it": whether their effect is part of
	// what survives is open (nsqd skips the metadata write of a creation that
	// arrives after the shutdown began, and still answers 200). Existence and
	// flags of their targets are adopted from the restarted daemon.
	for _, o := range w.burstOps {
		if o.Kind != "admin" {
			continue
		}
		topic := w.topicName(o.A)
		t := w.topic(topic)
		t.ExistUnknown, t.Tainted = true, true
		for _, c := range w.chans {
			if c.Topic == topic {
				c.Uncertain = true
			}
		}
		w.channel(topic, w.chanName(o.B)).Uncertain = true
		rc.Probe("admin_op_racing_exit")
	}
	// clients give up on a daemon that is shutting down (a connection accepted
	// just as the TCP server closes its clients is otherwise never closed by
	// nsqd and Exit waits for it indefinitely - DESIGN.md, observations)
	synctest.Wait()
	for _, pc := range w.pubConns {
		if pc != nil {
			pc.Close()
		}
	}
	for _, co := range w.cons {
		if !co.Dead {
			co.cl.Close()
		}
	}
	if keep != nil {
		synctest.Wait()
		select {
		case <-exitDone:
		default:
			// still shutting down (waiting for a subsystem): the listener is closed, this connection is not
			rc.Probe("publish_on_persistent_connection_during_exit")
			w.keepAlivePub(keep, keepRd, lateTopic, op.Uid*16+15)
		}
		keep.Close()
	}
	if silent != nil {
		select {
		case <-exitDone:
		case <-time.After(5 * time.Minute):
			w.violate("C05", "exit-hangs", "the graceful exit has not finished after 5 minutes while a connection that never sent the protocol magic stays open")
			w.violate("C01", "exit-hangs", "the graceful exit has not finished after 5 minutes while a connection that never sent the protocol magic stays open")
		}
		silent.Close()
	}
	<-exitDone
	w.n = nil
	synctest.Wait()
	w.collect()
	w.inBurst = false
	for _, co := range w.cons {
		if !co.Dead {
			co.cl.Close()
			w.consumerDied(co)
		}
	}
	for _, pc := range w.pubConns {
		if pc != nil {
			pc.Close()
		}
	}
	w.pubConns = nil
	// ephemeral objects do not survive; counters start again
	for _, k := range w.sortedChanKeys() {
		c := w.chans[k]
		if c.Ephemeral || w.topic(c.Topic).Ephemeral {
			if c.Exists {
				c.ephemeralGone = true
			}
			c.Exists = false
			c.Uncertain = false
		}
		c.Fins, c.Reqs, c.Discarded = 0, 0, 0
		c.Tainted = true // depth now includes messages counted in the previous lifetime
	}
	for _, t := range w.topics {
		if t.Ephemeral {
			if t.Exists {
				t.ephemeralGone = true
			}
			t.Exists = false
		}
		t.AckedMsgs, t.AckedBytes, t.UnknownMsgs, t.UnknownBytes = 0, 0, 0, 0
	}
	synctest.Wait()
	// A consumer's delivery pump that was still running during the shutdown
	// and failed to write to its (already closed) connection had taken a
	// message out of the queue: see known finding C05/pump-steals-at-exit.
	w.stolenAtExit += rc.probes["log_messagepump_error"] - pumpErr0
	time.Sleep(5 * time.Millisecond) // a process restart is not instantaneous (id generator: new millisecond)
	if err := w.startNSQD(); err != nil {
		w.violate("C05", "restart-failed", "nsqd did not start again on the same data path: %v", err)
		w.violate("C01", "restart-failed", "nsqd did not start again on the same data path: %v", err)
		return
	}
	rc.Probe("restarts")
	w.burstOps = nil
	w.resolveUncertain()
	if doc, _ := w.getStats(""); doc != nil {
		for _, t := range doc.Topics {
			for _, c := range t.Channels {
				rc.Logf("after restart: %s/%s depth=%d backend=%d topic depth=%d files=%v", t.TopicName, c.ChannelName, c.Depth, c.BackendDepth, t.Depth, listDataFiles(rc.Dir))
			}
		}
	}
	w.checkRegistry("C05")
}

// freshTopic: a configured topic that does not exist yet (the i-th of them), else the i-th configured topic.
func (w *qWorld) freshTopic(i int64) string {
	var fresh []string
	for _, name := range w.cfg.Topics {
		if t := w.topics[name]; t == nil || (!t.Exists && !t.ExistUnknown) {
			fresh = append(fresh, name)
		}
	}
	if len(fresh) == 0 {
		return w.topicName(i)
	}
	return fresh[int(uint64(i)%uint64(len(fresh)))]
}

// keepAlivePing: GET /ping over the persistent connection (so that it is an established, idle keep-alive connection).
func (w *qWorld) keepAlivePing(c net.Conn, rd *bufio.Reader) bool {
	c.SetDeadline(time.Now().Add(30 * time.Second))
	if _, err := c.Write([]byte("GET /ping HTTP/1.1\r\nHost: nsqd\r\n\r\n")); err != nil {
		return false
	}
	resp, err := http.ReadResponse(rd, nil)
	if err != nil {
		return false
	}
	var buf [64]byte
	for {
		if _, err := resp.Body.Read(buf[:]); err != nil {
			break
		}
	}
	resp.Body.Close()
	return resp.StatusCode == 200
}

// keepAlivePub publishes one message with POST /pub over the given persistent connection and waits for the answer.
func (w *qWorld) keepAlivePub(c net.Conn, rd *bufio.Reader, topic string, uid int) bool {
	r := NewPRNG(w.rc.Seed*31 + uint64(uid)*977 + 5)
	body := w.makeBody(r, 0, false)
	p := w.recordPub(body, topic, "http", -1, 0, 0, 0)
	req := fmt.Sprintf("POST /pub?topic=%s HTTP/1.1\r\nHost: nsqd\r\nContent-Length: %d\r\n\r\n", url.QueryEscape(topic), len(body))
	c.SetDeadline(time.Now().Add(30 * time.Second))
	if _, err := c.Write(append([]byte(req), body...)); err != nil {
		w.ackPubs([]*pubRec{p}, false, true)
		return false
	}
	resp, err := http.ReadResponse(rd, nil)
	if err != nil {
		w.rc.Logf("persistent connection: %v", err)
		w.ackPubs([]*pubRec{p}, false, true)
		return false
	}
	var buf [512]byte
	for {
		if _, err := resp.Body.Read(buf[:]); err != nil {
			break
		}
	}
	resp.Body.Close()
	w.rc.Logf("persistent connection: /pub?topic=%s -> %d", topic, resp.StatusCode)
	w.ackPubs([]*pubRec{p}, resp.StatusCode == 200, false)
	return true
}

// checkRegistry compares the set of topics/channels and paused flags in /stats with the model.
func (w *qWorld) checkRegistry(prop string) {
	doc, resp := w.getStats("")
	if doc == nil {
		w.violate(prop, "stats-unavailable", "GET /stats failed: %d %v", resp.Status, resp.Err)
		return
	}
	for name, t := range w.topics {
		if t.Tainted || w.anyUncertain(name) {
			continue
		}
		st := doc.topic(name)
		if t.Exists && !t.Ephemeral && st == nil {
			w.violate(prop, "topic-lost", "topic %s missing after restart", name)
		}
		if !t.Exists && st != nil {
			w.violate(prop, "topic-resurrected", "topic %s present after restart although deleted/ephemeral", name)
		}
		if st != nil && t.Exists && st.Paused != t.Paused {
			w.violate(prop, "topic-paused-flag", "topic %s paused=%v after restart, was %v", name, st.Paused, t.Paused)
		}
	}
	for _, k := range w.sortedChanKeys() {
		c := w.chans[k]
		if c.Uncertain || w.topic(c.Topic).Tainted {
			continue
		}
		sc := doc.channel(c.Topic, c.Name)
		if c.Exists && sc == nil {
			w.violate(prop, "channel-lost", "channel %s missing after restart", k)
		}
		if !c.Exists && sc != nil {
			w.violate(prop, "channel-resurrected", "channel %s present after restart although deleted/ephemeral", k)
		}
		if sc != nil && c.Exists && sc.Paused != c.Paused {
			w.violate(prop, "channel-paused-flag", "channel %s paused=%v after restart, was %v", k, sc.Paused, c.Paused)
		}
	}
}

// lateSlack: how long after a deadline the periodic scan may need to get to a channel.
func (w *qWorld) lateSlack() time.Duration {
	nch := 0
	for _, c := range w.chans {
		if c.Exists || c.Uncertain {
			nch++
		}
	}
	ticks := 3
	if nch > w.cfg.ScanSelCount && w.cfg.ScanSelCount > 0 {
		ticks = 28 * (nch + w.cfg.ScanSelCount - 1) / w.cfg.ScanSelCount
	}
	return time.Duration(ticks)*ms(w.cfg.ScanIntervalMs) + 2*ms(w.cfg.ScanRefreshMs) + time.Second
}

// lateSlackListed: the same for a channel the scanner already has in its list (the list is rebuilt every
// refresh interval; between two rebuilds every listed channel is drawn with the same probability per tick).
func (w *qWorld) lateSlackListed() time.Duration {
	// the list may still hold channels that have been deleted since the last refresh: every channel name this
	// run has ever used bounds its length
	nch := len(w.chans)
	ticks := 3
	if nch > w.cfg.ScanSelCount && w.cfg.ScanSelCount > 0 {
		ticks = 28 * (nch + w.cfg.ScanSelCount - 1) / w.cfg.ScanSelCount
	}
	return time.Duration(ticks)*ms(w.cfg.ScanIntervalMs) + time.Second
}

// checkLate (C04, "boundedly late"): an unanswered message cannot stay with
// its holder beyond max-msg-timeout after delivery (however often it is
// touched); once that has passed, plus scan slack, it must have been handed
// out again if its holder is able to receive.
func (w *qWorld) checkLate() {
	now := time.Now()
	slack := w.lateSlack()
	for _, co := range w.cons {
		if co.Dead || !co.Subscribed || co.Closing || co.Rdy < 1 || !co.Unbuffered {
			continue
		}
		cm := w.chans[co.ck]
		if cm == nil || !cm.Exists || cm.Paused || cm.Unordered || cm.Uncertain || now.Sub(w.lastRestartAt) < ms(w.cfg.MaxMsgTimeoutMs)+slack {
			continue
		}
		if time.Duration(w.epoch-cm.PausedStep) < 0 {
			continue
		}
		var mine []*delivery
		occupied := int64(0)
		for _, d := range co.Dels {
			if d.Answer == "" && !d.Voided && lastDel(d.mc) == d {
				// (also the deliveries an earlier command may or may not have answered: they may hold a RDY slot)
				occupied++
			}
			if d.Answer == "" && !d.Voided && !d.maybeAnswered && lastDel(d.mc) == d {
				if d.Step == cm.VoidStep && cm.VoidSeq != 0 {
					// handed out in the very epoch in which the channel was emptied: if before the empty, it is
					// gone from the in-flight set and rightly never times out (same rule as the RDY check)
					continue
				}
				if sl, ok := co.slack(); ok && !cm.VoidAt.IsZero() && !d.At.After(cm.VoidAt.Add(sl)) && d.Step > cm.VoidStep {
					continue
				}
				mine = append(mine, d)
			}
		}
		if int64(len(mine)) > co.Rdy || occupied > co.Rdy {
			continue
		}
		for _, d := range mine {
			slack := slack
			if refresh2 := 2 * ms(w.cfg.ScanRefreshMs); !cm.notListedBefore.IsZero() && !cm.notListedBefore.Add(refresh2).After(d.At.Add(co.MsgTimeout)) {
				// the channel had been in the scanner's list for a while when this delivery could first expire
				if sl := w.lateSlackListed(); sl < slack {
					slack = sl
				}
			}
			limit := d.At.Add(ms(w.cfg.MaxMsgTimeoutMs)).Add(slack)
			if cm.unpausedAt.After(d.At) {
				limit = cm.unpausedAt.Add(ms(w.cfg.MaxMsgTimeoutMs)).Add(slack)
			}
			// if the channel handed out anything else after this message's cap, the
			// holder's slots may simply have been taken by other queued messages
			busy := false
			capAt := d.At.Add(co.MsgTimeout) // the earliest it can have timed out and rejoined the queue
			for _, mc := range cm.msgs {
				for _, x := range mc.dels {
					if x != d && !x.At.Before(capAt) {
						busy = true
					}
				}
			}
			if now.After(limit) && !busy {
				w.violate("C04", "timeout-late", "m%06d delivered to %s at %v (attempt %d, %d touches) is still with it at %v: max-msg-timeout %v + scan slack %v have passed and it was not redelivered",
					d.mc.pub.N, co.cl.Name, d.At.Sub(w.rc.start), d.Att, len(d.Touches), now.Sub(w.rc.start), ms(w.cfg.MaxMsgTimeoutMs), slack)
				return
			}
		}
		w.rc.Probe("late_checked")
	}
}

// checkStuckInFlight (C04, "boundedly late", seen from the daemon's own counters): whatever a channel
// holds in flight was handed out within the last max-msg-timeout (plus scan slack) - an entry of the
// in-flight set that has lost its place in the timeout queue stays there for ever, and with it the
// message. Only channels whose frames are all accounted for are judged: every consumer unbuffered (a
// frame waiting in an output buffer is in flight and not yet seen) and no connection ended recently (a
// frame written to a connection that then broke is in flight and was never seen).
func (w *qWorld) checkStuckInFlight() {
	now := time.Now()
	window := ms(w.cfg.MaxMsgTimeoutMs) + w.lateSlack()
	if w.n == nil || now.Sub(w.lastRestartAt) <= window {
		return
	}
	doc, _ := w.getStats("")
	if doc == nil {
		return
	}
	for _, k := range w.sortedChanKeys() {
		cm := w.chans[k]
		if cm == nil || !cm.Exists || cm.Uncertain || now.Sub(cm.lastConnEnd) <= window {
			continue
		}
		judged := true
		for _, co := range w.cons {
			if co.ck == k && co.Subscribed && !co.Dead && !co.Unbuffered {
				judged = false
			}
		}
		sc := doc.channel(cm.Topic, cm.Name)
		if !judged || sc == nil {
			continue
		}
		recent := int64(0)
		for _, mc := range cm.msgs {
			for _, d := range mc.dels {
				if d.At.After(now.Add(-window)) {
					recent++
				}
			}
		}
		if sc.InFlightCount > recent {
			w.violate("C04", "in-flight-never-expires", "channel %s holds %d messages in flight, but handed out only %d within the last %v (max-msg-timeout %v + scan slack): an in-flight message is not being timed out",
				k, sc.InFlightCount, recent, window, ms(w.cfg.MaxMsgTimeoutMs))
			return
		}
		w.rc.Probe("in_flight_age_checked")
	}
}

// checkDeferredLate (C04, "boundedly late", the delayed half): called after a
// pure clock advance [advStart, now], during which no client did anything. A
// message that was requeued with a delay, or published deferred, and whose
// delay ran out at `due` must have been handed out by max(due, advStart) +
// scan slack if the channel has a consumer that was able to receive for that
// whole time: subscribed, not closing, holding fewer unanswered messages than
// its RDY count (nothing was answered during the advance; everything it was
// ever given and did not answer is counted, an upper bound for every instant
// of the advance), channel and topic not paused.
func (w *qWorld) checkDeferredLate(adv time.Duration) {
	now := time.Now()
	advStart := now.Add(-adv)
	slack := w.lateSlack()
	if adv <= slack {
		return
	}
	// the messages every channel still owes (with all the exemptions of the conservation oracle)
	owedBy := map[string][]*msgChan{}
	for _, mc := range w.owed() {
		owedBy[mc.ck] = append(owedBy[mc.ck], mc)
	}
	for _, k := range w.sortedChanKeys() {
		cm := w.chans[k]
		if cm == nil || !cm.Exists || cm.Paused || cm.Unordered || cm.Uncertain || cm.Sampled || cm.Ephemeral || cm.pendingVoid {
			continue
		}
		t := w.topic(cm.Topic)
		if t == nil || !t.Exists || t.Paused || t.Ephemeral {
			continue
		}
		if !advStart.After(w.lastRestartAt) || cm.unpausedAt.After(advStart) || cm.VoidAt.After(advStart) {
			continue
		}
		// a consumer that was able to receive during the whole advance
		var idle *consumer
		for _, co := range w.cons {
			if co.ck != k || co.Dead || !co.Subscribed || co.Closing || co.Rdy < 1 || co.OBT < 0 || co.Sample > 0 || co.fatalSent || co.expectClose || co.cl.Closed() {
				continue
			}
			if co.RdyStep >= w.epoch || co.SubStep >= w.epoch {
				continue
			}
			// everything it was ever given and has not answered counts as held (also what has timed out and
			// moved on since): an upper bound of what it held at any instant of the advance
			var held int64
			unknown := false
			for _, d := range co.Dels {
				if d.Answer == "" && !d.Voided {
					held++
				}
				if d.Answer != "" && !d.AnsKnown {
					unknown = true // an answer whose outcome is not known
				}
			}
			if !unknown && held < co.Rdy {
				idle = co
				break
			}
		}
		if idle == nil {
			continue
		}
		for _, mc := range owedBy[k] {
			if _, gone := cm.discarded[mc.pub.Key]; gone {
				continue
			}
			var due time.Time
			what := ""
			if last := lastDel(mc); last != nil {
				if last.Answer != "req" || !last.AnsOK || !last.AnsKnown || last.Voided || last.fateUnknown || last.maybeAnswered || last.lifetime != w.lifetime || last.ReqDelay <= 0 {
					continue
				}
				delay := last.ReqDelay
				if max := ms(w.cfg.MaxReqTimeoutMs); delay > max {
					delay = max
				}
				due = last.AnsAt.Add(delay)
				what = fmt.Sprintf("requeued by %s at %v with delay %v", last.cons.cl.Name, last.AnsAt.Sub(w.rc.start), last.ReqDelay)
			} else {
				p := mc.pub
				if p.DeferMs <= 0 || !p.Acked || p.lifetime != w.lifetime || p.TopicPausedAtSend || w.topic(p.Topic).pausedBetween(p.SendStep, p.SendStep) {
					// (a topic paused when the message arrives - also by a pause sent in the same burst - keeps it,
					// and the delay starts when the topic hands it to its channels after the unpause)
					continue
				}
				onChan := false
				for _, name := range p.ChansAtPub {
					if name == cm.Name {
						onChan = true
					}
				}
				if !onChan {
					continue
				}
				due = p.AckAt.Add(ms(p.DeferMs))
				what = fmt.Sprintf("published deferred by %dms, acknowledged at %v", p.DeferMs, p.AckAt.Sub(w.rc.start))
			}
			from := due
			if advStart.After(from) {
				from = advStart
			}
			w.rc.Probe("deferred_late_checked")
			if now.Sub(from) > slack {
				w.violate("C04", "delayed-message-late", "m%06d on %s (%s) was due at %v; %s was able to receive (RDY %d, fewer messages unanswered) from %v to %v and did not get it within the scan slack %v",
					mc.pub.N, k, what, due.Sub(w.rc.start), idle.cl.Name, idle.Rdy, from.Sub(w.rc.start), now.Sub(w.rc.start), slack)
				return
			}
		}
	}
}
