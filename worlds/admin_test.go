package zzverif

import (
	"encoding/base64"
	"encoding/json"
	"fmt"
	"net"
	"net/http"
	"net/url"
	"sort"
	"strings"
	"sync"
	"testing/synctest"
	"time"

	"github.com/nsqio/nsq/nsqadmin"

	"verifsim/simnet"
)

func init() { registerWorld("admin", adminWorld) }

// ACfg: configuration of an admin-world run (C17 identity gate, C18 cluster view).
type ACfg struct {
	NLookupd   int      `json:"n_lookupd"` // 0: direct nsqd mode
	NNsqd      int      `json:"n_nsqd"`
	AdminUsers []string `json:"admin_users"`
	ACLHeader  string   `json:"acl_header"`
	CIDR       string   `json:"cidr"`
	Seed2      uint64   `json:"seed2"`
	YieldProb  uint32   `json:"yield_prob"`
}

type stubReq struct {
	step   int
	method string
	path   string
	query  string
}

// stubChannel / stubTopic: the generated content of a stub nsqd.
type stubClient struct {
	ClientID string `json:"client_id"`
	Hostname string `json:"hostname"`
	Version  string `json:"version"`
	RemoteAddress string `json:"remote_address"`
	State    int    `json:"state"`
	ReadyCount int64 `json:"ready_count"`
	InFlightCount int64 `json:"in_flight_count"`
	MessageCount int64 `json:"message_count"`
	FinishCount int64 `json:"finish_count"`
	RequeueCount int64 `json:"requeue_count"`
	ConnectTime int64 `json:"connect_ts"`
	UserAgent *string `json:"user_agent,omitempty"`
	SampleRate *int  `json:"sample_rate,omitempty"`
}
type stubChannel struct {
	ChannelName   string       `json:"channel_name"`
	Depth         int64        `json:"depth"`
	BackendDepth  int64        `json:"backend_depth"`
	InFlightCount int64        `json:"in_flight_count"`
	DeferredCount int64        `json:"deferred_count"`
	MessageCount  int64        `json:"message_count"`
	RequeueCount  int64        `json:"requeue_count"`
	TimeoutCount  int64        `json:"timeout_count"`
	ClientCount   int64        `json:"client_count"`
	Clients       []stubClient `json:"clients"`
	Paused        bool         `json:"paused"`
	E2E           interface{}  `json:"e2e_processing_latency,omitempty"`
	e2eCount      int64
}
type stubTopic struct {
	TopicName    string        `json:"topic_name"`
	Channels     []stubChannel `json:"channels"`
	Depth        int64         `json:"depth"`
	BackendDepth int64         `json:"backend_depth"`
	MessageCount int64         `json:"message_count"`
	MessageBytes int64         `json:"message_bytes"`
	Paused       bool          `json:"paused"`
	E2E          interface{}   `json:"e2e_processing_latency,omitempty"`
}

type stubNode struct {
	kind   string // "nsqd" or "lookupd"
	idx    int
	addr   string // http address
	host   string
	tcp    int
	httpP  int
	topics []stubTopic // nsqd content
	known  []int       // lookupd: indexes of nsqds it knows
	tomb   map[string]bool // lookupd: "nsqdIdx/topic" tombstoned
	mode   int    // failure mode
	created map[string]bool // lookupd: topics created through its admin API
	unconfigured bool       // lookupd: running, but not in nsqadmin's list at the moment
	ln     net.Listener
	srv    *http.Server
}

const (
	upOK = iota
	upRefuse
	upBlackhole
	upReset
	up500
	upMalformed
	upInconsistent // lookupd /nodes: topics and tombstones of different lengths
	upEmptyBody
	upStallBody // answers the status line, headers and the beginning of the body, then nothing more (connection stays open)
	upNullEntries // well-formed JSON whose arrays contain null where an object is expected
)

type aWorld struct {
	rc    *RunCtx
	cfg   ACfg
	a     *nsqadmin.NSQAdmin
	http  string
	nodes []*stubNode
	mu    sync.Mutex
	log   []stubReq
	curLookupPath string // which lookupd endpoint the view under test uses
	stalled       []net.Conn
	notifyMode    int // 0,4 none; 1 healthy endpoint; 2 refused; 3 answers 500
	notified      int
}

func genACfg(rc *RunCtx) ACfg {
	r := rc.Rng
	c := ACfg{NNsqd: r.Range(1, 4), Seed2: r.U64(), YieldProb: uint32(r.Pick(0, 1024, 4096))}
	if r.Chance(3, 4) {
		c.NLookupd = r.Range(1, 3)
	}
	switch r.Intn(4) {
	case 0:
	case 1:
		c.AdminUsers = []string{"alice"}
	default:
		c.AdminUsers = []string{"alice", "bob@example.com"}
	}
	c.ACLHeader = r.PickS("X-Forwarded-User", "X-Forwarded-User", "X-Remote-User")
	c.CIDR = r.PickS("127.0.0.1/8", "10.1.0.0/16", "10.1.2.3/32", "", "fd00::/8", "0.0.0.0/0")
	return c
}

func genAOps(rc *RunCtx, c ACfg) []Op {
	r := rc.Rng
	n := r.Range(10, 50)
	var ops []Op
	add := func(o Op) { o.Uid = len(ops); ops = append(ops, o) }
	for len(ops) < n {
		switch r.Weighted([]int{30, 30, 14, 12, 4, 4, 4}) {
		case 0: // mutating request with some identity
			add(Op{Kind: "mutate", A: int64(r.Intn(13)), B: int64(r.Intn(10)), C: int64(r.Intn(6)), D: int64(r.Intn(6))})
		case 1: // read view compared with the reference aggregation
			add(Op{Kind: "view", A: int64(r.Intn(6)), B: int64(r.Intn(8)), C: int64(r.Intn(6)), D: int64(r.Intn(10))})
		case 2: // upstream failure mode change
			add(Op{Kind: "upmode", A: int64(r.Intn(8)), B: int64(r.Pick(upOK, upOK, upRefuse, upBlackhole, upReset, up500, upMalformed, upInconsistent, upEmptyBody, upStallBody))})
		case 3: // /config from some source address
			add(Op{Kind: "config", A: int64(r.Intn(8)), B: int64(r.Intn(3)), C: int64(r.Pick(0, 0, 1, 2, 3, 4))})
		case 4: // an upstream whose (well-formed) JSON arrays contain null entries
			add(Op{Kind: "nullview", A: int64(r.Intn(8)), B: int64(r.Intn(6)), C: int64(r.Intn(6))})
		case 5: // a reconfiguration of the lookupd list that is refused (or changes nothing)
			add(Op{Kind: "badreconf", A: int64(r.Intn(4))})
		case 6: // a new lookupd list
			add(Op{Kind: "reconf", A: int64(r.Intn(64))})
		}
	}
	return ops
}

var aTopics = []string{"orders", "clicks", "audit#ephemeral", "t.x_y-z"}
var aChans = []string{"archive", "metrics", "tail#ephemeral"}

// stubE2E: what an nsqd started with --e2e-processing-latency-percentile reports (an idle window has count 0).
func stubE2E(er *PRNG, host, topic, channel string) (interface{}, int64) {
	if !er.Chance(1, 2) {
		return nil, 0
	}
	count := int64(er.Pick(0, 0, 7, 1000))
	var ps []map[string]interface{}
	for _, q := range []float64{0.99, 0.95} {
		v := int64(0)
		if count > 0 {
			v = int64(er.Range(1000, 90000000))
		}
		ps = append(ps, map[string]interface{}{"quantile": q, "value": v})
	}
	return map[string]interface{}{"count": count, "percentiles": ps, "topic": topic, "channel": channel, "host": host}, count
}

func (w *aWorld) genCluster() {
	r := NewPRNG(w.cfg.Seed2)
	er := NewPRNG(w.cfg.Seed2 ^ 0xe2e) // own stream: the rest of the cluster of a seed is unchanged
	for i := 0; i < w.cfg.NNsqd; i++ {
		n := &stubNode{kind: "nsqd", idx: i, host: "127.0.0.1", tcp: 6000 + i, httpP: 4151}
		n.addr = fmt.Sprintf("%s:%d", n.host, n.httpP)
		for ti, t := range aTopics {
			if !r.Chance(2, 3) {
				continue
			}
			st := stubTopic{TopicName: t, Depth: int64(r.Pick(0, 1, 17, 1<<40)), MessageCount: int64(r.Pick(0, 5, 123456789, 1<<50)), MessageBytes: int64(r.Intn(1 << 20)), Paused: r.Chance(1, 5)}
			st.BackendDepth = st.Depth / 2
			for ci, c := range aChans {
				if !r.Chance(2, 3) {
					continue
				}
				sc := stubChannel{ChannelName: c, Depth: int64(r.Pick(0, 3, 1000000)), InFlightCount: int64(r.Intn(50)), DeferredCount: int64(r.Intn(5)),
					MessageCount: int64(r.Pick(0, 9, 1<<45)), RequeueCount: int64(r.Intn(100)), TimeoutCount: int64(r.Intn(100)), Paused: r.Chance(1, 6)}
				sc.BackendDepth = sc.Depth / 3
				nc := r.Intn(3)
				for k := 0; k < nc; k++ {
					cl := stubClient{ClientID: fmt.Sprintf("cl-%d-%d-%d-%d", i, ti, ci, k), Hostname: fmt.Sprintf("app%d", k), Version: "V2", RemoteAddress: fmt.Sprintf("10.0.%d.%d:5%03d", i, k, ti*10+ci),
						State: 3, ReadyCount: int64(r.Intn(100)), InFlightCount: int64(r.Intn(10)), MessageCount: int64(r.Intn(1000)), FinishCount: int64(r.Intn(1000)), ConnectTime: 1767225600}
					if r.Chance(1, 2) { // optional fields
						ua := "go-nsq/1.1.0"
						cl.UserAgent = &ua
						sr := r.Intn(100)
						cl.SampleRate = &sr
					}
					sc.Clients = append(sc.Clients, cl)
				}
				sc.ClientCount = int64(len(sc.Clients))
				sc.E2E, sc.e2eCount = stubE2E(er, fmt.Sprintf("127.0.0.1:%d", 6000+i), t, c)
				st.Channels = append(st.Channels, sc)
			}
			st.E2E, _ = stubE2E(er, fmt.Sprintf("127.0.0.1:%d", 6000+i), t, "")
			n.topics = append(n.topics, st)
		}
		w.nodes = append(w.nodes, n)
	}
	for i := 0; i < w.cfg.NLookupd; i++ {
		l := &stubNode{kind: "lookupd", idx: i, host: "127.0.0.1", httpP: 4161, tomb: map[string]bool{}}
		l.addr = fmt.Sprintf("%s:%d", l.host, l.httpP)
		for j := 0; j < w.cfg.NNsqd; j++ {
			l.known = append(l.known, j) // every nsqd registers with every lookupd
			_ = i
		}
		w.nodes = append(w.nodes, l)
	}
}

func (w *aWorld) violate(prop, class, format string, a ...interface{}) {
	if prop != w.rc.Prop {
		w.rc.Logf("(not enforced here) %s %s: %s", prop, class, fmt.Sprintf(format, a...))
		return
	}
	w.rc.Violate(prop, class, format, a...)
}

// genTombstones: the same tombstones at every lookupd (a tombstone request goes to all of them).
func (w *aWorld) genTombstones() {
	r := NewPRNG(w.cfg.Seed2 ^ 0x7)
	for _, n := range w.nsqds() {
		for _, t := range n.topics {
			if r.Chance(1, 8) {
				for _, l := range w.allLookupds() {
					l.tomb[fmt.Sprintf("%d/%s", n.idx, t.TopicName)] = true
				}
			}
		}
	}
}

func (w *aWorld) nsqds() []*stubNode {
	var out []*stubNode
	for _, n := range w.nodes {
		if n.kind == "nsqd" {
			out = append(out, n)
		}
	}
	return out
}
// lookupds: the nsqlookupds nsqadmin is configured with at the moment (the list can be changed at run time)
func (w *aWorld) lookupds() []*stubNode {
	var out []*stubNode
	for _, n := range w.nodes {
		if n.kind == "lookupd" && !n.unconfigured {
			out = append(out, n)
		}
	}
	return out
}

func (w *aWorld) allLookupds() []*stubNode {
	var out []*stubNode
	for _, n := range w.nodes {
		if n.kind == "lookupd" {
			out = append(out, n)
		}
	}
	return out
}

// ---------------------------------------------------------------- stub upstream servers

func (w *aWorld) startStub(n *stubNode, port int) bool {
	// each stub host gets its own port (simnet maps every host name to loopback)
	ln, err := w.rc.Net.Listen("tcp", fmt.Sprintf("127.0.0.1:%d", port))
	if err != nil {
		w.rc.Violate(w.rc.Prop, "startup-failed", "stub listen: %v", err)
		return false
	}
	n.httpP = port
	n.addr = fmt.Sprintf("%s:%d", n.host, port)
	n.ln = ln
	n.srv = &http.Server{Handler: http.HandlerFunc(func(rw http.ResponseWriter, req *http.Request) { w.serve(n, rw, req) })}
	go n.srv.Serve(ln)
	return true
}

func (w *aWorld) serve(n *stubNode, rw http.ResponseWriter, req *http.Request) {
	w.mu.Lock()
	w.log = append(w.log, stubReq{step: w.rc.step, method: req.Method, path: n.kind + fmt.Sprint(n.idx) + req.URL.Path, query: req.URL.RawQuery})
	mode := n.mode
	w.mu.Unlock()
	switch mode {
	case up500:
		rw.WriteHeader(500)
		rw.Write([]byte(`{"message":"INTERNAL_ERROR"}`))
		return
	case upMalformed:
		rw.Write([]byte(`{"topics": [{"topic_name": 5, "channels": "x"`))
		return
	case upEmptyBody:
		return
	case upRefuse, upBlackhole:
		if hj, ok := rw.(http.Hijacker); ok {
			c, _, _ := hj.Hijack()
			if sc, ok := c.(*simnet.Conn); ok {
				sc.Reset()
			} else {
				c.Close()
			}
		}
		return
	case upNullEntries:
		rw.Header().Set("Content-Type", "application/json")
		if n.kind == "nsqd" {
			switch req.URL.Path {
			case "/stats":
				rw.Write([]byte(`{"version":"1.3.0","health":"OK","start_time":1767225600,"topics":[null,{"topic_name":"orders","channels":[null,{"channel_name":"archive","clients":[null]}]}],"producers":[null]}`))
			default:
				rw.Write([]byte(`{"version":"1.3.0","broadcast_address":"127.0.0.1","hostname":"127.0.0.1","http_port":4151,"tcp_port":6000}`))
			}
		} else {
			switch req.URL.Path {
			case "/nodes", "/lookup":
				rw.Write([]byte(`{"channels":[null],"producers":[null]}`))
			case "/topics":
				rw.Write([]byte(`{"topics":[null]}`))
			case "/channels":
				rw.Write([]byte(`{"channels":[null]}`))
			default:
				rw.Write([]byte(`{}`))
			}
		}
		return
	case upStallBody:
		if hj, ok := rw.(http.Hijacker); ok {
			c, _, _ := hj.Hijack()
			c.Write([]byte("HTTP/1.1 200 OK\r\nContent-Type: application/json\r\nContent-Length: 1000\r\n\r\n{\"topics\":["))
			w.mu.Lock()
			w.stalled = append(w.stalled, c) // kept open; closed at the end of the run
			w.mu.Unlock()
		}
		return
	case upReset:
		if hj, ok := rw.(http.Hijacker); ok {
			c, _, _ := hj.Hijack()
			c.Write([]byte("HTTP/1.1 200 OK\r\nContent-Length: 1000\r\n\r\n{\"topics\":["))
			if sc, ok := c.(*simnet.Conn); ok {
				sc.Reset()
			} else {
				c.Close()
			}
		}
		return
	}
	q := req.URL.Query()
	var out interface{}
	if n.kind == "nsqd" {
		switch req.URL.Path {
		case "/info":
			out = map[string]interface{}{"version": "1.3.0", "broadcast_address": n.host, "hostname": n.host, "http_port": n.httpP, "tcp_port": n.tcp}
		case "/stats":
			var ts []stubTopic
			for _, t := range n.topics {
				if q.Get("topic") != "" && t.TopicName != q.Get("topic") {
					continue
				}
				tt := t
				tt.Channels = nil
				for _, c := range t.Channels {
					if q.Get("channel") != "" && c.ChannelName != q.Get("channel") {
						continue
					}
					cc := c
					if q.Get("include_clients") == "false" {
						cc.Clients = nil
					}
					tt.Channels = append(tt.Channels, cc)
				}
				if q.Get("channel") != "" && len(tt.Channels) == 0 {
					continue
				}
				ts = append(ts, tt)
			}
			if ts == nil {
				ts = []stubTopic{}
			}
			out = map[string]interface{}{"version": "1.3.0", "health": "OK", "start_time": 1767225600, "topics": ts, "producers": []int{}}
		default:
			out = map[string]interface{}{}
		}
	} else {
		prod := func(j int, withTopics bool) map[string]interface{} {
			nd := w.nodes[j]
			m := map[string]interface{}{"remote_address": fmt.Sprintf("10.9.%d.%d:3%04d", n.idx, j, j), "hostname": nd.host, "broadcast_address": nd.host,
				"tcp_port": nd.tcp, "http_port": nd.httpP, "version": "1.3.0"}
			if withTopics {
				var ts []string
				var tb []bool
				for _, t := range nd.topics {
					ts = append(ts, t.TopicName)
					tb = append(tb, n.tomb[fmt.Sprintf("%d/%s", j, t.TopicName)])
				}
				if mode == upInconsistent && len(tb) > 0 {
					tb = tb[:len(tb)-1]
				}
				if ts == nil {
					ts, tb = []string{}, []bool{}
				}
				m["topics"], m["tombstones"] = ts, tb
			}
			return m
		}
		switch req.URL.Path {
		case "/info":
			out = map[string]interface{}{"version": "1.3.0"}
		case "/topics":
			set := map[string]bool{}
			for _, j := range n.known {
				for _, t := range w.nodes[j].topics {
					set[t.TopicName] = true
				}
			}
			out = map[string]interface{}{"topics": keysOf(set)}
		case "/channels":
			set := map[string]bool{}
			for _, j := range n.known {
				for _, t := range w.nodes[j].topics {
					if t.TopicName == q.Get("topic") {
						for _, c := range t.Channels {
							set[c.ChannelName] = true
						}
					}
				}
			}
			out = map[string]interface{}{"channels": keysOf(set)}
		case "/nodes":
			var ps []interface{}
			for _, j := range n.known {
				ps = append(ps, prod(j, true))
			}
			if ps == nil {
				ps = []interface{}{}
			}
			out = map[string]interface{}{"producers": ps}
		case "/lookup":
			var ps []interface{}
			chans := map[string]bool{}
			found := false
			for _, j := range n.known {
				for _, t := range w.nodes[j].topics {
					if t.TopicName == q.Get("topic") {
						found = true
						if !n.tomb[fmt.Sprintf("%d/%s", j, t.TopicName)] {
							ps = append(ps, prod(j, false))
						}
						for _, c := range t.Channels {
							chans[c.ChannelName] = true
						}
					}
				}
			}
			if !found && n.created[q.Get("topic")] {
				found = true
			}
			if !found {
				rw.WriteHeader(404)
				rw.Write([]byte(`{"message":"TOPIC_NOT_FOUND"}`))
				return
			}
			if ps == nil {
				ps = []interface{}{}
			}
			out = map[string]interface{}{"channels": keysOf(chans), "producers": ps}
		default:
			if req.Method == "POST" && (req.URL.Path == "/topic/create" || req.URL.Path == "/channel/create") {
				w.mu.Lock()
				if n.created == nil {
					n.created = map[string]bool{}
				}
				n.created[q.Get("topic")] = true
				w.mu.Unlock()
			}
			out = map[string]interface{}{}
		}
	}
	b, _ := json.Marshal(out)
	rw.Header().Set("Content-Type", "application/json")
	rw.Write(b)
}

func keysOf(m map[string]bool) []string {
	out := []string{}
	for k := range m {
		out = append(out, k)
	}
	sort.Strings(out)
	return out
}

// ---------------------------------------------------------------- the world

func adminWorld(rc *RunCtx) {
	w := &aWorld{rc: rc}
	var ops []Op
	if rc.Replay != nil {
		if err := json.Unmarshal(rc.Replay.Cfg, &w.cfg); err != nil {
			panic(err)
		}
		ops = rc.Replay.Ops
	} else {
		w.cfg = genACfg(rc)
		ops = genAOps(rc, w.cfg)
	}
	c := w.cfg
	if rc.GenOnly(c, ops) {
		return
	}
	rc.Sched.Prob = c.YieldProb
	w.genCluster()
	w.genTombstones()
	port := 5000
	for _, n := range w.nodes {
		port++
		if !w.startStub(n, port) {
			return
		}
	}
	// sometimes nsqadmin starts with only the first of several lookupds and is told about the others later
	if all := w.allLookupds(); len(all) > 1 && NewPRNG(c.Seed2^0x1157).Chance(1, 3) {
		for _, l := range all[1:] {
			l.unconfigured = true
		}
	}
	o := nsqadmin.NewOptions()
	o.Logger = &simLogger{rc: rc, name: "nsqadmin"}
	o.HTTPAddress = "127.0.0.1:4171"
	for _, l := range w.lookupds() {
		o.NSQLookupdHTTPAddresses = append(o.NSQLookupdHTTPAddresses, l.addr)
	}
	if c.NLookupd == 0 {
		for _, n := range w.nsqds() {
			o.NSQDHTTPAddresses = append(o.NSQDHTTPAddresses, n.addr)
		}
	}
	o.AdminUsers = c.AdminUsers
	o.ACLHTTPHeader = c.ACLHeader
	o.AllowConfigFromCIDR = c.CIDR
	o.HTTPClientConnectTimeout = 2 * time.Second
	o.HTTPClientRequestTimeout = 5 * time.Second
	// --notification-http-endpoint: every admin action is POSTed there; the endpoint is one more upstream
	// that may be healthy, refuse connections or answer errors - nsqadmin must live with all of it
	switch w.notifyMode = int(NewPRNG(c.Seed2 ^ 0x707).Intn(5)); w.notifyMode {
	case 1, 2, 3:
		o.NotificationHTTPEndpoint = "http://127.0.0.1:4999/notify"
		if w.notifyMode != 2 { // 2: nobody listens (connection refused)
			ln, err := rc.Net.Listen("tcp", "127.0.0.1:4999")
			if err != nil {
				panic("harness: " + err.Error())
			}
			mode := w.notifyMode
			srv := &http.Server{Handler: http.HandlerFunc(func(rw http.ResponseWriter, req *http.Request) {
				w.mu.Lock()
				w.notified++
				w.mu.Unlock()
				if mode == 3 {
					rw.WriteHeader(500)
				}
			})}
			go srv.Serve(ln)
			rc.Defer(func() { srv.Close(); ln.Close() })
		}
	}
	a, err := nsqadmin.New(o)
	if err != nil {
		rc.Violate(rc.Prop, "startup-failed", "nsqadmin.New: %v", err)
		return
	}
	w.a = a
	go a.Main()
	w.http = "127.0.0.1:4171"
	rc.Defer(func() {
		w.mu.Lock()
		for _, c := range w.stalled {
			c.Close()
		}
		w.mu.Unlock()
		a.Exit()
		for _, n := range w.nodes {
			n.ln.Close()
			n.srv.Close()
		}
		synctest.Wait()
	})
	synctest.Wait()
	rc.Logf("cfg %+v", c)
	for i, op := range ops {
		rc.step = i + 1
		rc.Reseed(op.Uid)
		rc.opsKind[op.Kind]++
		rc.Logf("op %d uid=%d %s a=%d b=%d c=%d d=%d", i, op.Uid, op.Kind, op.A, op.B, op.C, op.D)
		switch op.Kind {
		case "mutate":
			w.opMutate(op)
		case "view":
			w.opView(op)
		case "upmode":
			n := w.nodes[int(uint64(op.A)%uint64(len(w.nodes)))]
			w.setMode(n, int(op.B))
		case "config":
			w.opConfig(op)
		case "nullview":
			w.opNullView(op)
		case "badreconf":
			w.opBadReconf(op)
		case "reconf":
			w.opReconf(op)
		}
		synctest.Wait()
		if rc.Failed() {
			break
		}
		if r := httpDo(rc, "GET", w.http, "/ping", nil, nil, nil, 10*time.Second); r.Err != nil || r.Status != 200 {
			rc.Violate(rc.Prop, "nsqadmin-unresponsive", "/ping -> %d %v after step %d", r.Status, r.Err, rc.step)
			break
		}
	}
	rc.Res.Ops = len(ops)
	rc.Res.Nontrivial = len(ops) > 4
	rc.Res.State = fmt.Sprintf("%016x", fnv([]byte(fmt.Sprint(c))))
	sample := map[string]interface{}{"seed": rc.Seed, "cfg": c, "ops_head": head(ops, 12), "n_ops": len(ops), "upstream_requests": len(w.log)}
	rc.Res.Sample, _ = json.Marshal(sample)
	if rc.Failed() {
		rc.writeReplay(c, ops)
	}
}

func (w *aWorld) setMode(n *stubNode, mode int) {
	w.mu.Lock()
	n.mode = mode
	w.mu.Unlock()
	a := fmt.Sprintf("127.0.0.1:%d", n.httpP)
	switch mode {
	case upRefuse:
		w.rc.Net.SetRefuse(a, simnet.RefuseRST)
	case upBlackhole:
		w.rc.Net.SetRefuse(a, simnet.RefuseBlackhole)
	default:
		w.rc.Net.SetRefuse(a, simnet.RefuseNone)
	}
	if mode == upRefuse || mode == upBlackhole {
		// the node is gone: so are its established (keep-alive) connections
		for _, c := range w.rc.Net.Conns() {
			if c.RemoteAddr().String() == a && !c.IsDead() {
				c.Reset()
			}
		}
	}
	if mode != upOK {
		w.rc.Fault([]string{"", "upstream_refuse", "upstream_blackhole", "upstream_reset_mid_body", "upstream_500", "upstream_malformed_json", "upstream_inconsistent_arrays", "upstream_empty_body", "upstream_stalls_mid_body", "upstream_null_entries"}[mode])
	}
	w.rc.Logf("%s%d mode %d", n.kind, n.idx, mode)
}

// healthy: the upstream answers this endpoint properly (the inconsistent-arrays
// mode only damages a lookupd's /nodes reply).
func (w *aWorld) healthyFor(n *stubNode, path string) bool {
	if n.mode == upOK {
		return true
	}
	if n.mode == upInconsistent {
		if n.kind == "lookupd" && path == "/nodes" {
			for _, j := range n.known {
				if len(w.nodes[j].topics) > 0 {
					return false // that producer's arrays differ in length
				}
			}
		}
		return true
	}
	return false
}

func (w *aWorld) healthy(n *stubNode) bool {
	if n.kind == "lookupd" {
		return w.healthyFor(n, w.curLookupPath)
	}
	return w.healthyFor(n, "/stats")
}

func (w *aWorld) requestsSince(i int) []stubReq {
	w.mu.Lock()
	defer w.mu.Unlock()
	return append([]stubReq(nil), w.log[i:]...)
}

// ---------------------------------------------------------------- C17: identity gate

func (w *aWorld) identity(sel int64) (hdr map[string]string, isAdmin bool) {
	h := w.cfg.ACLHeader
	other := "X-Remote-User"
	if h == other {
		other = "X-Forwarded-User"
	}
	admins := w.cfg.AdminUsers
	first := "alice"
	switch sel % 13 {
	case 12:
		// an admin's name in HTTP basic credentials nobody verified: not an identity nsqadmin was told to trust
		return map[string]string{"Authorization": "Basic " + base64.StdEncoding.EncodeToString([]byte(first+":secret"))}, false
	case 0:
		return nil, false
	case 1:
		return map[string]string{h: ""}, false
	case 2:
		return map[string]string{h: "mallory"}, false
	case 3, 4, 5:
		return map[string]string{h: first}, contains(admins, first)
	case 6:
		return map[string]string{h: "Alice"}, contains(admins, "Alice")
	case 7:
		return map[string]string{h: " alice"}, contains(admins, " alice") || contains(admins, "alice") // header values are trimmed by HTTP parsing
	case 8:
		return map[string]string{h: "alic"}, false
	case 9:
		return map[string]string{other: first}, false // right user, wrong header
	case 10:
		return map[string]string{h: "bob@example.com"}, contains(admins, "bob@example.com")
	default:
		return map[string]string{h: "alice,bob@example.com"}, false
	}
}

func contains(xs []string, s string) bool {
	for _, x := range xs {
		if x == s {
			return true
		}
	}
	return false
}

func (w *aWorld) opMutate(op Op) {
	rc := w.rc
	hdr, isAdmin := w.identity(op.A)
	allowed := len(w.cfg.AdminUsers) == 0 || isAdmin
	t := aTopics[int(op.C)%len(aTopics)]
	ch := aChans[int(op.D)%len(aChans)]
	nsqds := w.nsqds()
	node := nsqds[int(op.D)%len(nsqds)]
	var method, path string
	var body []byte
	switch op.B % 10 {
	case 0:
		method, path, body = "POST", "/api/topics", []byte(fmt.Sprintf(`{"topic":%q}`, t))
	case 1:
		method, path, body = "POST", "/api/topics", []byte(fmt.Sprintf(`{"topic":%q,"channel":%q}`, t, ch))
	case 2:
		method, path = "DELETE", "/api/topics/"+url.PathEscape(t)
	case 3:
		method, path = "DELETE", "/api/topics/"+url.PathEscape(t)+"/"+url.PathEscape(ch)
	case 4:
		method, path, body = "POST", "/api/topics/"+url.PathEscape(t), []byte(`{"action":"pause"}`)
	case 5:
		method, path, body = "POST", "/api/topics/"+url.PathEscape(t), []byte(`{"action":"unpause"}`)
	case 6:
		method, path, body = "POST", "/api/topics/"+url.PathEscape(t)+"/"+url.PathEscape(ch), []byte(`{"action":"empty"}`)
	case 7:
		method, path, body = "POST", "/api/topics/"+url.PathEscape(t)+"/"+url.PathEscape(ch), []byte(`{"action":"pause"}`)
	case 8:
		method, path, body = "DELETE", "/api/nodes/"+url.PathEscape(node.addr), []byte(fmt.Sprintf(`{"topic":%q}`, t))
	case 9:
		method, path, body = "POST", "/api/topics/"+url.PathEscape(t), []byte(`{"action":"empty"}`)
	}
	mark := len(w.log)
	resp := httpDo(rc, method, w.http, path, body, hdr, nil, 120*time.Second)
	synctest.Wait()
	reqs := w.requestsSince(mark)
	rc.Logf("%s %s hdr=%v -> %d %q (%d upstream requests) allowed=%v", method, path, hdr, resp.Status, trunc(resp.Body, 80), len(reqs), allowed)
	rc.Probe("mutations_checked")
	if resp.Err != nil {
		w.violate("C17", "no-response", "%s %s: %v", method, path, resp.Err)
		return
	}
	if !allowed {
		if resp.Status != 403 {
			w.violate("C17", "unauthorised-not-refused", "%s %s with identity %v (admins %v, header %s) answered %d, expected 403", method, path, hdr, w.cfg.AdminUsers, w.cfg.ACLHeader, resp.Status)
			return
		}
		if len(reqs) != 0 {
			w.violate("C17", "unauthorised-reached-upstream", "%s %s with identity %v was refused but caused %d upstream request(s), first %s %s", method, path, hdr, len(reqs), reqs[0].method, reqs[0].path)
		}
		rc.Probe("refusals_checked")
		return
	}
	if resp.Status == 403 {
		w.violate("C17", "authorised-refused", "%s %s with identity %v (admins %v) answered 403", method, path, hdr, w.cfg.AdminUsers)
		return
	}
	// carried out on every relevant upstream (when everything is healthy)
	allHealthy := true
	for _, n := range w.nodes {
		if n.mode != upOK {
			allHealthy = false
		}
	}
	kind := int(op.B % 10)
	if !allHealthy {
		// lookupd-level actions (create, tombstone) go to every lookupd: a
		// failing one must not keep the request from the healthy ones
		if w.cfg.NLookupd > 0 && (kind <= 1 || kind == 8) {
			posted := map[string]bool{}
			for _, q := range reqs {
				if q.method == "POST" {
					posted[q.path] = true
				}
			}
			for _, l := range w.lookupds() {
				if l.mode != upOK {
					continue
				}
				for _, p := range w.expectedFanout(kind, t, ch, node) {
					if strings.HasPrefix(p, fmt.Sprintf("lookupd%d/", l.idx)) && !posted[p] {
						w.violate("C17", "action-skipped-healthy-lookupd", "%s %s: healthy lookupd %d did not receive POST %s while another upstream was failing (POSTs seen: %v)", method, path, l.idx, p, keysOf(posted))
						return
					}
				}
				rc.Probe("partial_fanout_checked")
			}
		}
		return
	}
	if w.cfg.NLookupd == 0 && (kind <= 1 || kind == 8) {
		// creating topics/channels and tombstoning are nsqlookupd operations:
		// with directly configured nsqds there is no relevant upstream
		return
	}
	if w.cfg.NLookupd > 0 && kind >= 2 && kind != 8 {
		// actions on producers first look the topic up; a topic no lookupd knows is
		// answered 404 by every lookupd and the action fails as a whole
		knownSomewhere := false
		for _, l := range w.lookupds() {
			for _, j := range l.known {
				for _, st := range w.nodes[j].topics {
					if st.TopicName == t {
						knownSomewhere = true
					}
				}
			}
		}
		if !knownSomewhere {
			return
		}
	}
	if resp.Status != 200 {
		w.violate("C17", "authorised-action-failed", "%s %s answered %d %s with every upstream healthy", method, path, resp.Status, trunc(resp.Body, 100))
		return
	}
	posted := map[string]bool{}
	for _, q := range reqs {
		if q.method == "POST" {
			posted[q.path] = true
		}
	}
	want := w.expectedFanout(int(op.B%10), t, ch, node)
	for _, p := range want {
		if !posted[p] {
			w.violate("C17", "action-not-carried-out", "%s %s: no POST %s (upstream POSTs seen: %v, expected %v)", method, path, p, keysOf(posted), want)
			return
		}
		// ... and on the object that was named: the upstream must have received exactly that topic / channel
		for _, q := range reqs {
			if q.method != "POST" || q.path != p {
				continue
			}
			args, err := url.ParseQuery(q.query)
			if err != nil {
				w.violate("C17", "action-on-wrong-object", "%s %s: upstream POST %s carried an unparsable query %q", method, path, p, q.query)
				return
			}
			if got := args.Get("topic"); got != t {
				w.violate("C17", "action-on-wrong-object", "%s %s: upstream POST %s?%s names topic %q, the action was for %q", method, path, p, q.query, got, t)
				return
			}
			if strings.Contains(p, "/channel/") {
				if got := args.Get("channel"); got != ch {
					w.violate("C17", "action-on-wrong-object", "%s %s: upstream POST %s?%s names channel %q, the action was for %q", method, path, p, q.query, got, ch)
					return
				}
			}
			if strings.HasSuffix(p, "/topic/tombstone") {
				if got := args.Get("node"); got != node.addr {
					w.violate("C17", "action-on-wrong-object", "%s %s: upstream POST %s?%s names node %q, the action was for %q", method, path, p, q.query, got, node.addr)
					return
				}
			}
		}
	}
	rc.Probe("fanout_checked")
}

// producersOf: nsqds that produce topic t according to the healthy upstreams' data.
func (w *aWorld) producersOf(t string) []*stubNode {
	var out []*stubNode
	for _, n := range w.nsqds() {
		has := false
		for _, st := range n.topics {
			if st.TopicName == t {
				has = true
			}
		}
		if !has {
			continue
		}
		if w.cfg.NLookupd > 0 {
			listed := false
			for _, l := range w.lookupds() {
				if containsInt(l.known, n.idx) && !l.tomb[fmt.Sprintf("%d/%s", n.idx, t)] {
					listed = true
				}
			}
			if !listed {
				continue
			}
		}
		out = append(out, n)
	}
	return out
}

func containsInt(xs []int, v int) bool {
	for _, x := range xs {
		if x == v {
			return true
		}
	}
	return false
}

func (w *aWorld) expectedFanout(kind int, t, ch string, node *stubNode) []string {
	var out []string
	lk := func(p string) {
		for _, l := range w.lookupds() {
			out = append(out, fmt.Sprintf("lookupd%d%s", l.idx, p))
		}
	}
	pr := func(p string) {
		for _, n := range w.producersOf(t) {
			out = append(out, fmt.Sprintf("nsqd%d%s", n.idx, p))
		}
	}
	switch kind {
	case 0:
		lk("/topic/create")
	case 1:
		lk("/topic/create")
		lk("/channel/create")
	case 2:
		lk("/topic/delete")
		pr("/topic/delete")
	case 3:
		lk("/channel/delete")
		pr("/channel/delete")
	case 4:
		pr("/topic/pause")
	case 5:
		pr("/topic/unpause")
	case 6:
		pr("/channel/empty")
	case 7:
		pr("/channel/pause")
	case 8:
		lk("/topic/tombstone")
	case 9:
		pr("/topic/empty")
	}
	return out
}

func (w *aWorld) opConfig(op Op) {
	rc := w.rc
	srcs := []string{"127.0.0.1", "10.1.2.3", "10.1.9.9", "10.2.0.1", "192.168.1.1", "fd00::1", "2001:db8::1", "127.255.255.254"}
	src := net.ParseIP(srcs[int(op.A)%len(srcs)])
	method, path, body := "GET", "/config/log_level", []byte(nil)
	switch op.B % 3 {
	case 1:
		method, body = "PUT", []byte("info")
	case 2:
		path = "/config/nsqlookupd_http_addresses"
		if w.cfg.NLookupd == 0 {
			path = "/config/log_level"
		}
	}
	// the gate is about the peer address of the connection: a client-supplied
	// forwarding header naming an address inside the CIDR must not open it
	var hdr map[string]string
	if w.cfg.CIDR != "" && op.C%5 != 0 {
		_, ipn, _ := net.ParseCIDR(w.cfg.CIDR)
		in := append(net.IP(nil), ipn.IP...)
		in[len(in)-1] |= 1
		switch op.C % 5 {
		case 1:
			hdr = map[string]string{"X-Forwarded-For": in.String()}
		case 2:
			hdr = map[string]string{"X-Forwarded-For": in.String() + ", 203.0.113.7"}
		case 3:
			hdr = map[string]string{"X-Real-Ip": in.String()}
		case 4:
			hdr = map[string]string{"Forwarded": "for=" + in.String()}
		}
		rc.Probe("config_with_forwarding_header")
	}
	resp := httpDo(rc, method, w.http, path, body, hdr, src, 30*time.Second)
	rc.Probe("config_checked")
	if resp.Err != nil {
		w.violate("C17", "no-response", "%s %s: %v", method, path, resp.Err)
		return
	}
	inside := true
	if w.cfg.CIDR != "" {
		_, ipn, _ := net.ParseCIDR(w.cfg.CIDR)
		inside = ipn.Contains(src)
	}
	rc.Logf("config %s %s from %s -> %d (cidr %q inside=%v)", method, path, src, resp.Status, w.cfg.CIDR, inside)
	if !inside && resp.Status != 403 {
		w.violate("C17", "config-outside-cidr-allowed", "%s %s from %s answered %d although outside %s", method, path, src, resp.Status, w.cfg.CIDR)
	}
	if inside && resp.Status != 200 {
		w.violate("C17", "config-inside-cidr-refused", "%s %s from %s answered %d although inside %q", method, path, src, resp.Status, w.cfg.CIDR)
	}
}

// ---------------------------------------------------------------- C18: views vs. reference aggregation

func (w *aWorld) opView(op Op) {
	rc := w.rc
	hdr, _ := w.identity(op.D) // read-only views stay available to everybody
	t := aTopics[int(op.B)%len(aTopics)]
	ch := aChans[int(op.C)%len(aChans)]
	lookupMode := w.cfg.NLookupd > 0
	w.curLookupPath = map[int64]string{0: "/topics", 1: "/lookup", 2: "/lookup", 3: "/lookup", 4: "/nodes", 5: "/nodes"}[op.A%6]
	okL, badL := 0, 0
	for _, l := range w.lookupds() {
		if w.healthy(l) {
			okL++
		} else {
			badL++
		}
	}
	// producers reachable through healthy lookupds (or configured directly)
	var prods []*stubNode
	for _, n := range w.nsqds() {
		if !lookupMode {
			prods = append(prods, n)
			continue
		}
		for _, l := range w.lookupds() {
			if w.healthy(l) && containsInt(l.known, n.idx) {
				prods = append(prods, n)
				break
			}
		}
	}
	switch op.A % 6 {
	case 0: // /api/topics
		resp := httpDo(rc, "GET", w.http, "/api/topics", nil, hdr, nil, 120*time.Second)
		var v struct {
			Topics  []string `json:"topics"`
			Message string   `json:"message"`
		}
		var srcOK, srcBad int
		want := map[string]bool{}
		if lookupMode {
			srcOK, srcBad = okL, badL
			for _, l := range w.lookupds() {
				if w.healthy(l) {
					for _, j := range l.known {
						for _, st := range w.nodes[j].topics {
							want[st.TopicName] = true
						}
					}
				}
			}
		} else {
			for _, n := range w.nsqds() {
				if w.healthy(n) {
					srcOK++
					for _, st := range n.topics {
						want[st.TopicName] = true
					}
				} else {
					srcBad++
				}
			}
		}
		if !w.viewStatus("/api/topics", resp, srcOK, srcBad, &v, func() string { return v.Message }) {
			return
		}
		if resp.Status == 200 && setOf(v.Topics) != setOf(keysOf(want)) {
			w.violate("C18", "topics-view", "/api/topics lists [%s], the healthy upstreams report [%s]", setOf(v.Topics), setOf(keysOf(want)))
		}
	case 1, 2: // /api/topics/:topic
		resp := httpDo(rc, "GET", w.http, "/api/topics/"+url.PathEscape(t), nil, hdr, nil, 120*time.Second)
		var v struct {
			TopicName    string `json:"topic_name"`
			Depth        int64  `json:"depth"`
			MessageCount int64  `json:"message_count"`
			Nodes        []struct {
				Node string `json:"node"`
			} `json:"nodes"`
			Channels []struct {
				ChannelName   string `json:"channel_name"`
				Depth         int64  `json:"depth"`
				InFlightCount int64  `json:"in_flight_count"`
				DeferredCount int64  `json:"deferred_count"`
				MessageCount  int64  `json:"message_count"`
				RequeueCount  int64  `json:"requeue_count"`
				TimeoutCount  int64  `json:"timeout_count"`
				ClientCount   int64  `json:"client_count"`
			} `json:"channels"`
			Message string `json:"message"`
		}
		tp := w.topicProducers(t, lookupMode)
		srcOK, srcBad := 0, 0
		var depth, mc int64
		nodes := []string{}
		chans := map[string][7]int64{}
		for _, n := range tp {
			if !w.healthy(n) {
				srcBad++
				continue
			}
			srcOK++
			for _, st := range n.topics {
				if st.TopicName != t {
					continue
				}
				depth += st.Depth
				mc += st.MessageCount
				nodes = append(nodes, n.addr)
				for _, c := range st.Channels {
					a := chans[c.ChannelName]
					a[0] += c.Depth
					a[1] += c.InFlightCount
					a[2] += c.DeferredCount
					a[3] += c.MessageCount
					a[4] += c.RequeueCount
					a[5] += c.TimeoutCount
					a[6] += c.ClientCount
					chans[c.ChannelName] = a
				}
			}
		}
		lookupFail := lookupMode && badL > 0
		if lookupMode && okL == 0 {
			srcOK, srcBad = 0, 1
		}
		if len(tp) == 0 && !(lookupMode && okL == 0) {
			// nobody produces it: an empty aggregate (warning only if a lookupd failed)
			if resp.Err == nil && resp.Status == 200 {
				rc.Probe("empty_topic_view")
			}
			return
		}
		if !w.viewStatus("/api/topics/"+t, resp, srcOK, srcBad+btoi(lookupFail), &v, func() string { return v.Message }) {
			return
		}
		if resp.Status != 200 {
			return
		}
		got := map[string][7]int64{}
		for _, c := range v.Channels {
			got[c.ChannelName] = [7]int64{c.Depth, c.InFlightCount, c.DeferredCount, c.MessageCount, c.RequeueCount, c.TimeoutCount, c.ClientCount}
		}
		var gn []string
		for _, n := range v.Nodes {
			gn = append(gn, n.Node)
		}
		if v.Depth != depth || v.MessageCount != mc || fmt.Sprint(got) != fmt.Sprint(chans) || setOf(gn) != setOf(nodes) {
			w.violate("C18", "topic-view", "/api/topics/%s: depth %d message_count %d channels %v nodes [%s]; sum over healthy producers: depth %d message_count %d channels %v nodes [%s]",
				t, v.Depth, v.MessageCount, got, setOf(gn), depth, mc, chans, setOf(nodes))
		}
		rc.Probe("topic_views_checked")
	case 3: // /api/topics/:topic/:channel
		tp := w.topicProducers(t, lookupMode)
		srcOK, srcBad := 0, 0
		var sum [7]int64
		var e2eSum int64
		clients := map[string]bool{}
		found := false
		for _, n := range tp {
			if !w.healthy(n) {
				srcBad++
				continue
			}
			srcOK++
			for _, st := range n.topics {
				if st.TopicName != t {
					continue
				}
				for _, c := range st.Channels {
					if c.ChannelName != ch {
						continue
					}
					found = true
					sum[0] += c.Depth
					sum[1] += c.InFlightCount
					sum[2] += c.DeferredCount
					sum[3] += c.MessageCount
					sum[4] += c.RequeueCount
					sum[5] += c.TimeoutCount
					sum[6] += c.ClientCount
					e2eSum += c.e2eCount
					for _, cl := range c.Clients {
						clients[cl.ClientID] = true
					}
				}
			}
		}
		if !found || (lookupMode && okL == 0) {
			// a channel nobody reports: the answer is not specified (nsqadmin answers
			// 500 from a recovered nil dereference), but it must not take nsqadmin down (/ping after the step)
			httpDo(rc, "GET", w.http, "/api/topics/"+url.PathEscape(t)+"/"+url.PathEscape(ch), nil, hdr, nil, 120*time.Second)
			rc.Probe("unreported_channel_views")
			return
		}
		resp := httpDo(rc, "GET", w.http, "/api/topics/"+url.PathEscape(t)+"/"+url.PathEscape(ch), nil, hdr, nil, 120*time.Second)
		var v struct {
			Depth, InFlightCount, DeferredCount, MessageCount, RequeueCount, TimeoutCount, ClientCount int64
			Clients                                                                                  []struct{ ClientID string `json:"client_id"` }
			Message                                                                                  string
		}
		var raw struct {
			Depth         int64 `json:"depth"`
			InFlightCount int64 `json:"in_flight_count"`
			DeferredCount int64 `json:"deferred_count"`
			MessageCount  int64 `json:"message_count"`
			RequeueCount  int64 `json:"requeue_count"`
			TimeoutCount  int64 `json:"timeout_count"`
			ClientCount   int64 `json:"client_count"`
			Clients       []struct {
				ClientID string `json:"client_id"`
			} `json:"clients"`
			Message string `json:"message"`
			E2E     *struct {
				Count int64 `json:"count"`
			} `json:"e2e_processing_latency"`
		}
		lookupFail := lookupMode && badL > 0
		if !w.viewStatus("/api/topics/"+t+"/"+ch, resp, srcOK, srcBad+btoi(lookupFail), &raw, func() string { return raw.Message }) {
			return
		}
		_ = v
		if resp.Status != 200 {
			return
		}
		got := [7]int64{raw.Depth, raw.InFlightCount, raw.DeferredCount, raw.MessageCount, raw.RequeueCount, raw.TimeoutCount, raw.ClientCount}
		gc := map[string]bool{}
		for _, c := range raw.Clients {
			gc[c.ClientID] = true
		}
		if got != sum || setOf(keysOf(gc)) != setOf(keysOf(clients)) {
			w.violate("C18", "channel-view", "/api/topics/%s/%s: counters %v clients [%s]; sum over healthy producers %v clients [%s]", t, ch, got, setOf(keysOf(gc)), sum, setOf(keysOf(clients)))
		}
		if raw.E2E != nil && raw.E2E.Count != e2eSum {
			w.violate("C18", "channel-view", "/api/topics/%s/%s: end-to-end latency sample count %d, sum over healthy producers %d", t, ch, raw.E2E.Count, e2eSum)
		}
		rc.Probe("channel_views_checked")
	case 4: // /api/nodes
		resp := httpDo(rc, "GET", w.http, "/api/nodes", nil, hdr, nil, 120*time.Second)
		var v struct {
			Nodes []struct {
				BroadcastAddress string `json:"broadcast_address"`
				HTTPPort         int    `json:"http_port"`
				Topics           []struct {
					Topic      string `json:"topic"`
					Tombstoned bool   `json:"tombstoned"`
				} `json:"topics"`
			} `json:"nodes"`
			Message string `json:"message"`
		}
		srcOK, srcBad := 0, 0
		want := map[string]string{}
		if lookupMode {
			srcOK, srcBad = okL, badL
			for _, n := range prods {
				var ts []string
				for _, st := range n.topics {
					tomb := false
					for _, l := range w.lookupds() {
						if w.healthy(l) && containsInt(l.known, n.idx) && l.tomb[fmt.Sprintf("%d/%s", n.idx, st.TopicName)] {
							tomb = true
						}
					}
					ts = append(ts, fmt.Sprintf("%s=%v", st.TopicName, tomb))
				}
				sort.Strings(ts)
				want[n.addr] = strings.Join(ts, ",")
			}
		} else {
			for _, n := range w.nsqds() {
				if !w.healthy(n) {
					srcBad++
					continue
				}
				srcOK++
				var ts []string
				for _, st := range n.topics {
					ts = append(ts, fmt.Sprintf("%s=false", st.TopicName))
				}
				sort.Strings(ts)
				want[n.addr] = strings.Join(ts, ",")
			}
		}
		if !w.viewStatus("/api/nodes", resp, srcOK, srcBad, &v, func() string { return v.Message }) {
			return
		}
		if resp.Status != 200 {
			return
		}
		got := map[string]string{}
		for _, n := range v.Nodes {
			var ts []string
			for _, tt := range n.Topics {
				ts = append(ts, fmt.Sprintf("%s=%v", tt.Topic, tt.Tombstoned))
			}
			sort.Strings(ts)
			got[fmt.Sprintf("%s:%d", n.BroadcastAddress, n.HTTPPort)] = strings.Join(ts, ",")
		}
		if fmt.Sprint(got) != fmt.Sprint(want) {
			w.violate("C18", "nodes-view", "/api/nodes lists %v, the healthy upstreams report %v", got, want)
		}
		rc.Probe("node_views_checked")
	case 5: // /api/counter
		resp := httpDo(rc, "GET", w.http, "/api/counter", nil, hdr, nil, 120*time.Second)
		var v struct {
			Stats map[string]struct {
				MessageCount int64 `json:"message_count"`
			} `json:"stats"`
			Message string `json:"message"`
		}
		srcOK, srcBad := 0, 0
		want := map[string]int64{}
		for _, n := range prods {
			if !w.healthy(n) {
				srcBad++
				continue
			}
			srcOK++
			for _, st := range n.topics {
				for _, c := range st.Channels {
					want[st.TopicName+":"+c.ChannelName+":"+n.addr] += c.MessageCount
				}
			}
		}
		if lookupMode && okL == 0 {
			srcOK, srcBad = 0, 1
		}
		if len(prods) == 0 && !(lookupMode && okL == 0) {
			return
		}
		if !w.viewStatus("/api/counter", resp, srcOK, srcBad+btoi(lookupMode && badL > 0), &v, func() string { return v.Message }) {
			return
		}
		if resp.Status != 200 {
			return
		}
		got := map[string]int64{}
		for k, s := range v.Stats {
			got[k] = s.MessageCount
		}
		if fmt.Sprint(got) != fmt.Sprint(want) {
			w.violate("C18", "counter-view", "/api/counter reports %v, sum over healthy producers %v", got, want)
		}
		rc.Probe("counter_views_checked")
	}
}

func btoi(b bool) int {
	if b {
		return 1
	}
	return 0
}

// topicProducers: the nsqds nsqadmin should ask about topic t.
func (w *aWorld) topicProducers(t string, lookupMode bool) []*stubNode {
	var out []*stubNode
	for _, n := range w.nsqds() {
		has := false
		for _, st := range n.topics {
			if st.TopicName == t {
				has = true
			}
		}
		if !lookupMode {
			// direct mode: every configured nsqd is asked; unhealthy ones count as failures
			if has || !w.healthy(n) {
				out = append(out, n)
			}
			continue
		}
		if !has {
			continue
		}
		for _, l := range w.lookupds() {
			if w.healthy(l) && containsInt(l.known, n.idx) && !l.tomb[fmt.Sprintf("%d/%s", n.idx, t)] {
				out = append(out, n)
				break
			}
		}
	}
	return out
}

// viewStatus checks the warning / 502 mapping and decodes the body.
func (w *aWorld) viewStatus(what string, resp HTTPResp, srcOK, srcBad int, v interface{}, msg func() string) bool {
	rc := w.rc
	rc.Probe("views_checked")
	if resp.Err != nil {
		w.violate("C18", "no-response", "%s: %v", what, resp.Err)
		return false
	}
	rc.Logf("view %s -> %d %q (healthy sources %d, failing %d)", what, resp.Status, trunc(resp.Body, 100), srcOK, srcBad)
	if srcOK == 0 && srcBad > 0 {
		if resp.Status != 502 {
			w.violate("C18", "total-failure-not-502", "%s answered %d although no upstream answered", what, resp.Status)
		}
		return false
	}
	if resp.Status != 200 {
		w.violate("C18", "view-failed", "%s answered %d %s with %d healthy upstream(s)", what, resp.Status, trunc(resp.Body, 120), srcOK)
		return false
	}
	if err := json.Unmarshal(resp.Body, v); err != nil {
		w.violate("C18", "view-bad-json", "%s: %v", what, err)
		return false
	}
	if srcBad > 0 && msg() == "" {
		w.violate("C18", "partial-failure-without-warning", "%s: %d upstream(s) failed but the view carries no warning message", what, srcBad)
		return false
	}
	if srcBad == 0 && msg() != "" {
		w.violate("C18", "warning-without-failure", "%s: every upstream is healthy but the view carries the warning %q", what, msg())
		return false
	}
	return true
}

// opNullView: one upstream answers well-formed JSON whose arrays contain null entries (inconsistent
// upstream JSON). What the views show then is not specified; nsqadmin must answer every view and stay up.
func (w *aWorld) opNullView(op Op) {
	rc := w.rc
	n := w.nodes[int(uint64(op.A)%uint64(len(w.nodes)))]
	old := n.mode
	w.setMode(n, upNullEntries)
	t := aTopics[int(op.B)%len(aTopics)]
	ch := aChans[int(op.C)%len(aChans)]
	for _, path := range []string{"/api/topics", "/api/nodes", "/api/topics/" + url.PathEscape(t), "/api/topics/" + url.PathEscape(t) + "/" + url.PathEscape(ch), "/api/counter", "/api/nodes/127.0.0.1:4151"} {
		resp := httpDo(rc, "GET", w.http, path, nil, map[string]string{w.cfg.ACLHeader: "alice"}, nil, 120*time.Second)
		rc.Logf("null-entry view %s -> %d %q err=%v", path, resp.Status, trunc(resp.Body, 80), resp.Err)
		if resp.Err != nil {
			w.violate("C18", "no-response", "%s with null entries in the answers of %s%d: %v", path, n.kind, n.idx, resp.Err)
			break
		}
	}
	rc.Probe("views_with_null_entries")
	w.setMode(n, old)
}

// opBadReconf: PUT /config/nsqlookupd_http_addresses (from an allowed address) with a value that is
// refused - its first element looks like an address, a later one is not a string - or with the list that
// is configured already. Neither may change which upstreams nsqadmin asks: the views that follow are
// still compared with the reference over all configured lookupds.
func (w *aWorld) opBadReconf(op Op) {
	if w.cfg.NLookupd == 0 {
		return
	}
	var src net.IP
	if w.cfg.CIDR != "" {
		_, ipn, _ := net.ParseCIDR(w.cfg.CIDR)
		src = append(net.IP(nil), ipn.IP...)
		src[len(src)-1] |= 1
	}
	var body []byte
	want := 400
	switch op.A % 4 {
	case 0:
		body = []byte(`["127.0.0.1:1", 5]`)
	case 1:
		body = []byte(`["127.0.0.1:2", "127.0.0.1:3", {"x":1}]`)
	case 2:
		body = []byte(`["127.0.0.1:4"`)
	default:
		var l []string
		for _, n := range w.lookupds() {
			l = append(l, n.addr)
		}
		body, _ = json.Marshal(l)
		want = 200 // (the list that is configured already)
	}
	resp := httpDo(w.rc, "PUT", w.http, "/config/nsqlookupd_http_addresses", body, nil, src, 30*time.Second)
	w.rc.Logf("reconf %s -> %d %q err=%v", body, resp.Status, trunc(resp.Body, 80), resp.Err)
	w.rc.Probe("refused_reconfigurations")
	if resp.Err != nil || resp.Status != want {
		w.violate("C17", "config-status", "PUT /config/nsqlookupd_http_addresses %s from %v answered %d (err %v), expected %d", body, src, resp.Status, resp.Err, want)
	}
}

// opReconf: PUT /config/nsqlookupd_http_addresses with another non-empty subset of the running lookupds
// (from an allowed address). From the answer on, views and actions concern exactly the new list.
func (w *aWorld) opReconf(op Op) {
	all := w.allLookupds()
	if len(all) < 2 {
		return
	}
	mask := int(op.A)%((1<<len(all))-1) + 1
	var l []string
	for i, n := range all {
		if mask&(1<<i) != 0 {
			l = append(l, n.addr)
		}
	}
	var src net.IP
	if w.cfg.CIDR != "" {
		_, ipn, _ := net.ParseCIDR(w.cfg.CIDR)
		src = append(net.IP(nil), ipn.IP...)
		src[len(src)-1] |= 1
	}
	body, _ := json.Marshal(l)
	resp := httpDo(w.rc, "PUT", w.http, "/config/nsqlookupd_http_addresses", body, nil, src, 30*time.Second)
	w.rc.Logf("reconf %s -> %d %q err=%v", body, resp.Status, trunc(resp.Body, 80), resp.Err)
	w.rc.Probe("reconfigurations")
	if resp.Err != nil || resp.Status != 200 {
		w.violate("C17", "config-status", "PUT /config/nsqlookupd_http_addresses %s from %v answered %d (err %v), expected 200", body, src, resp.Status, resp.Err)
		return
	}
	for i, n := range all {
		n.unconfigured = mask&(1<<i) == 0
	}
}
