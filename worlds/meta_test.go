package zzverif

import (
	"runtime"
	"encoding/json"
	"fmt"
	"net/url"
	"os"
	"path/filepath"
	"sort"
	"strings"
	"syscall"
	"testing/synctest"
	"time"

	"github.com/nsqio/nsq/nsqd"

	"verifsim/simos"
)

func init() { registerWorld("meta", metaWorld) }

// MCfg: configuration of a metadata-world run (C06).
type MCfg struct {
	Topics    []string `json:"topics"`
	Channels  []string `json:"channels"`
	YieldProb uint32   `json:"yield_prob"`
	Inject    int      `json:"inject"` // 0: no disk faults; n: one in n metadata file calls fails
	Cycles    int      `json:"cycles"`
}

// regState is one registry state: topic -> (paused, channel -> paused).
type regTopic struct {
	Paused   bool
	Channels map[string]bool
}
type regState map[string]*regTopic

func (s regState) clone() regState {
	o := regState{}
	for t, rt := range s {
		n := &regTopic{Paused: rt.Paused, Channels: map[string]bool{}}
		for c, p := range rt.Channels {
			n.Channels[c] = p
		}
		o[t] = n
	}
	return o
}

func (s regState) String() string {
	var ts []string
	for t, rt := range s {
		var cs []string
		for c, p := range rt.Channels {
			cs = append(cs, fmt.Sprintf("%s:%v", c, p))
		}
		sort.Strings(cs)
		ts = append(ts, fmt.Sprintf("%s(paused=%v)[%s]", t, rt.Paused, strings.Join(cs, ",")))
	}
	sort.Strings(ts)
	return strings.Join(ts, " ")
}

// durable drops ephemeral objects (they are never persisted).
func (s regState) durable() regState {
	o := regState{}
	for t, rt := range s {
		if strings.HasSuffix(t, "#ephemeral") {
			continue
		}
		n := &regTopic{Paused: rt.Paused, Channels: map[string]bool{}}
		for c, p := range rt.Channels {
			if !strings.HasSuffix(c, "#ephemeral") {
				n.Channels[c] = p
			}
		}
		o[t] = n
	}
	return o
}

// between: r lies componentwise between a and b (an intermediate state of the
// operation that leads from a to b; b == nil means r must equal a).
func between(a, b, r regState) bool {
	if b == nil {
		return a.String() == r.String()
	}
	for t, rt := range r {
		at, bt := a[t], b[t]
		if at == nil && bt == nil {
			return false
		}
		if !((at != nil && at.Paused == rt.Paused) || (bt != nil && bt.Paused == rt.Paused)) {
			return false
		}
		for c, p := range rt.Channels {
			var ap, bp, ain, bin bool
			if at != nil {
				ap, ain = at.Channels[c]
			}
			if bt != nil {
				bp, bin = bt.Channels[c]
			}
			if !ain && !bin {
				return false
			}
			if !((ain && ap == p) || (bin && bp == p)) {
				return false
			}
		}
		// channels present in both a and b must be present in r
		if at != nil && bt != nil {
			for c := range at.Channels {
				if _, in := bt.Channels[c]; in {
					if _, ok := rt.Channels[c]; !ok {
						return false
					}
				}
			}
		}
	}
	// topics present in both must be present in r
	for t := range a {
		if _, in := b[t]; in {
			if _, ok := r[t]; !ok {
				return false
			}
		}
	}
	return true
}

type killPoint struct {
	at       string // description of the instant
	content  []byte // nsqd.dat at that instant (nil = absent)
	lo, hi   int    // admissible model state indexes
	pauseReq map[string]bool // object -> paused flag that must be reflected (acknowledged, unchanged since)
	relaxed  bool // a disk fault was injected since the last successful persist
}

type mWorld struct {
	rc      *RunCtx
	cfg     MCfg
	n       *nsqd.NSQD
	http    string
	tcp     string
	states  []regState // states[i] after i acknowledged registry operations
	idleIdx int        // index of the state at the last idle point
	pauseAck map[string]bool
	kills   []killPoint
	faultSince bool
	injRng  *PRNG
	hookOn  bool
	exiting bool // inside the graceful Exit of a restart op
	exitTries int
}

func (w *mWorld) cur() regState { return w.states[len(w.states)-1] }

func (w *mWorld) push(s regState) { w.states = append(w.states, s) }

func genMCfg(rc *RunCtx) MCfg {
	r := rc.Rng
	c := MCfg{}
	c.Topics = []string{"t0", "t1", "e#ephemeral"}[:r.Range(1, 3)]
	c.Channels = []string{"c0", "c1", "x#ephemeral"}[:r.Range(1, 3)]
	c.YieldProb = uint32(r.Pick(0, 1024, 4096, 16384))
	if r.Chance(1, 3) {
		c.Inject = r.Pick(3, 6, 12)
	}
	c.Cycles = r.Range(1, 3)
	return c
}

func genMOps(rc *RunCtx, c MCfg) []Op {
	r := rc.Rng
	n := r.Range(8, 45)
	var ops []Op
	add := func(o Op) { o.Uid = len(ops); ops = append(ops, o) }
	restarts := 0
	for len(ops) < n {
		t, ch := int64(r.Intn(8)), int64(r.Intn(8))
		switch r.Weighted([]int{14, 14, 8, 8, 8, 8, 8, 8, 14, 5, 3, 3}) {
		case 0:
			add(Op{Kind: "admin", S: "create_topic", A: t})
		case 1:
			add(Op{Kind: "admin", S: "create_channel", A: t, B: ch})
		case 2:
			add(Op{Kind: "admin", S: "delete_topic", A: t})
		case 3:
			add(Op{Kind: "admin", S: "delete_channel", A: t, B: ch})
		case 4:
			add(Op{Kind: "admin", S: "pause_topic", A: t})
		case 5:
			add(Op{Kind: "admin", S: "unpause_topic", A: t})
		case 6:
			add(Op{Kind: "admin", S: "pause_channel", A: t, B: ch})
		case 7:
			add(Op{Kind: "admin", S: "unpause_channel", A: t, B: ch})
		case 8:
			add(Op{Kind: "idle", A: int64(r.Pick(0, 1, 50))})
		case 9:
			add(Op{Kind: "subclose", A: t, B: ch})
		case 10:
			add(Op{Kind: "second", A: int64(r.Intn(2))})
		case 11:
			if restarts < c.Cycles {
				restarts++
				add(Op{Kind: "restart"})
			}
		}
	}
	return ops
}

func metaWorld(rc *RunCtx) {
	w := &mWorld{rc: rc, pauseAck: map[string]bool{}}
	var ops []Op
	if rc.Replay != nil {
		if err := json.Unmarshal(rc.Replay.Cfg, &w.cfg); err != nil {
			panic(err)
		}
		ops = rc.Replay.Ops
	} else {
		w.cfg = genMCfg(rc)
		ops = genMOps(rc, w.cfg)
	}
	c := w.cfg
	if rc.GenOnly(c, ops) {
		return
	}
	rc.Sched.Prob = c.YieldProb
	w.injRng = NewPRNG(rc.Seed ^ 0x1234)
	w.push(regState{})
	simos.Install(&simos.Hooks{Before: w.before, After: w.after})
	if !w.start() {
		return
	}
	rc.Defer(func() {
		w.hookOn = false
		if w.n != nil {
			w.n.Exit()
			synctest.Wait()
		}
	})
	rc.Logf("cfg %+v", c)
	for i, op := range ops {
		rc.step = i + 1
		rc.Reseed(op.Uid)
		w.injRng = NewPRNG(rc.Seed*131 + uint64(op.Uid))
		rc.opsKind[op.Kind]++
		rc.Logf("op %d uid=%d %s a=%d b=%d s=%q", i, op.Uid, op.Kind, op.A, op.B, op.S)
		w.exec(op)
		if rc.Failed() {
			break
		}
	}
	if !rc.Failed() {
		w.idle(0)
		w.hookOn = false
		w.checkKills()
	}
	rc.Res.Ops = len(ops)
	rc.Res.Nontrivial = len(w.kills) > 3
	rc.Res.State = fmt.Sprintf("%016x", fnv([]byte(w.cur().String())))
	rc.ProbeN("kill_points", int64(len(w.kills)))
	sample := map[string]interface{}{"seed": rc.Seed, "cfg": c, "ops_head": head(ops, 14), "n_ops": len(ops), "kill_points": len(w.kills), "final_registry": w.cur().String()}
	rc.Res.Sample, _ = json.Marshal(sample)
	if rc.Failed() {
		rc.writeReplay(c, ops)
	}
}

func (w *mWorld) options(dir, tcp, httpa string) *nsqd.Options {
	o := nsqd.NewOptions()
	o.Logger = &simLogger{rc: w.rc, name: "nsqd"}
	o.TCPAddress, o.HTTPAddress, o.HTTPSAddress = tcp, httpa, ""
	o.BroadcastAddress = "127.0.0.1"
	o.DataPath = dir
	o.MemQueueSize = 100
	return o
}

func (w *mWorld) start() bool {
	n, err := nsqd.New(w.options(w.rc.Dir, "127.0.0.1:4150", "127.0.0.1:4151"))
	if err != nil {
		w.rc.Violate("C06", "startup-failed", "nsqd.New: %v", err)
		return false
	}
	if err := n.LoadMetadata(); err != nil {
		w.rc.Violate("C06", "startup-failed", "LoadMetadata: %v", err)
		return false
	}
	w.hookOn = true
	if err := n.PersistMetadata(); err != nil && w.cfg.Inject == 0 {
		w.rc.Violate("C06", "startup-failed", "PersistMetadata: %v", err)
		return false
	}
	w.n = n
	go n.Main()
	w.tcp, w.http = "127.0.0.1:4150", "127.0.0.1:4151"
	synctest.Wait()
	return true
}

// ---------------------------------------------------------------- simos hooks: fault injection and kill points

func isMeta(path string) bool { return strings.Contains(filepath.Base(path), "nsqd.dat") }

func (w *mWorld) before(ev *simos.Event) error {
	if w.exiting && w.exitTries < 3 && isMeta(ev.Path) {
		// the data path stays in use until the shutdown has written everything:
		// a second nsqd started meanwhile must still be refused
		w.exitTries++
		if n2, err := nsqd.New(w.options(w.rc.Dir, "127.0.0.1:0", "127.0.0.1:0")); err == nil {
			_ = n2
			w.rc.Violate("C06", "second-instance-started-during-shutdown", "a second nsqd started on the data path while the first one was still writing its metadata during Exit (%s %s)", ev.Op, filepath.Base(ev.Path))
		} else {
			w.rc.Probe("second_instance_refused_during_shutdown")
		}
	}
	if !w.hookOn || !isMeta(ev.Path) {
		return nil
	}
	// a kill just before this call
	w.snapshot("before " + ev.Op + " " + filepath.Base(ev.Path))
	if w.cfg.Inject > 0 && ev.Op != "close" && w.injRng.Intn(w.cfg.Inject) == 0 {
		w.faultSince = true
		kind := w.injRng.Intn(3)
		switch {
		case ev.Op == "write" && kind == 0 && len(ev.Data) > 1:
			ev.Short = 1 + w.injRng.Intn(len(ev.Data)-1)
			w.rc.Fault("disk_short_write")
			return syscall.ENOSPC
		case kind == 1:
			w.rc.Fault("disk_eio_" + ev.Op)
			return syscall.EIO
		default:
			w.rc.Fault("disk_enospc_" + ev.Op)
			return syscall.ENOSPC
		}
	}
	return nil
}

func (w *mWorld) after(ev *simos.Event) {
	if !w.hookOn || !isMeta(ev.Path) {
		return
	}
	if ev.Op == "rename" {
		w.faultSince = false // a complete new document is in place
	}
	w.snapshot("after " + ev.Op + " " + filepath.Base(ev.Path))
}

func (w *mWorld) snapshot(at string) {
	b, err := os.ReadFile(filepath.Join(w.rc.Dir, "nsqd.dat"))
	if err != nil {
		b = nil
	}
	// "at every instant the on-disk metadata is either absent or a complete, loadable document"
	if b != nil {
		var m struct {
			Topics []struct {
				Name     string `json:"name"`
				Paused   bool   `json:"paused"`
				Channels []struct {
					Name   string `json:"name"`
					Paused bool   `json:"paused"`
				} `json:"channels"`
			} `json:"topics"`
			Version string `json:"version"`
		}
		if err := json.Unmarshal(b, &m); err != nil {
			w.rc.Violate("C06", "metadata-not-loadable", "%s: nsqd.dat is not a complete document: %v (%q)", at, err, trunc(b, 120))
			return
		}
	}
	pr := map[string]bool{}
	for k, v := range w.pauseAck {
		pr[k] = v
	}
	kp := killPoint{at: at, content: b, lo: w.idleIdx, hi: len(w.states) - 1, pauseReq: pr, relaxed: w.faultSince || w.cfg.Inject > 0}
	if w.cfg.Inject > 0 {
		// with failing metadata writes the file may lag behind arbitrarily; it
		// must still be complete, loadable and a state the daemon passed through
		kp.lo = 0
	}
	if n := len(w.kills); n > 0 {
		l := w.kills[n-1]
		if string(l.content) == string(b) && l.lo == kp.lo && l.hi == kp.hi && fmt.Sprint(l.pauseReq) == fmt.Sprint(kp.pauseReq) {
			return
		}
	}
	w.kills = append(w.kills, kp)
}

// ---------------------------------------------------------------- operations

func (w *mWorld) name(pool []string, i int64) string { return pool[int(uint64(i)%uint64(len(pool)))] }

func (w *mWorld) idle(advMs int64) {
	synctest.Wait()
	if advMs > 0 {
		time.Sleep(ms(advMs))
		synctest.Wait()
	}
	w.idleIdx = len(w.states) - 1
	w.snapshot("idle")
}

func (w *mWorld) exec(op Op) {
	rc := w.rc
	switch op.Kind {
	case "idle":
		w.idle(op.A)
	case "admin":
		t, ch := w.name(w.cfg.Topics, op.A), w.name(w.cfg.Channels, op.B)
		isChan := strings.Contains(op.S, "channel")
		action := op.S[:strings.IndexByte(op.S, '_')]
		var path string
		if isChan {
			path = "/channel/" + action + "?topic=" + url.QueryEscape(t) + "&channel=" + url.QueryEscape(ch)
		} else {
			path = "/topic/" + action + "?topic=" + url.QueryEscape(t)
		}
		// the operation may take effect any time from now on
		next := w.cur().clone()
		tk, ck := "topic:"+t, "chan:"+t+"/"+ch
		switch op.S {
		case "create_topic":
			if next[t] == nil {
				next[t] = &regTopic{Channels: map[string]bool{}}
			}
		case "create_channel":
			if next[t] != nil {
				if _, ok := next[t].Channels[ch]; !ok {
					next[t].Channels[ch] = false
				}
			}
		case "delete_topic":
			if next[t] != nil {
				delete(next, t)
				delete(w.pauseAck, tk)
				for k := range w.pauseAck {
					if strings.HasPrefix(k, "chan:"+t+"/") {
						delete(w.pauseAck, k)
					}
				}
			}
		case "delete_channel":
			if next[t] != nil {
				delete(next[t].Channels, ch)
				delete(w.pauseAck, ck)
			}
		case "pause_topic", "unpause_topic":
			if next[t] != nil {
				next[t].Paused = op.S == "pause_topic"
				delete(w.pauseAck, tk)
			}
		case "pause_channel", "unpause_channel":
			if next[t] != nil {
				if _, ok := next[t].Channels[ch]; ok {
					next[t].Channels[ch] = op.S == "pause_channel"
					delete(w.pauseAck, ck)
				}
			}
		}
		changed := next.String() != w.cur().String()
		if changed {
			w.push(next) // from now on snapshots may show anything between the previous and this state
		}
		resp := httpDo(rc, "POST", w.http, path, nil, nil, nil, 60*time.Second)
		rc.Logf("admin %s -> %d %s err=%v", path, resp.Status, resp.Body, resp.Err)
		if resp.Err != nil || resp.Status >= 500 {
			w.rc.Violate("C06", "admin-failed", "%s -> %d %v", path, resp.Status, resp.Err)
			return
		}
		if strings.HasSuffix(t, "#ephemeral") && resp.Status == 404 {
			// ephemeral topics come and go with their channels (never persisted): follow the daemon
			n2 := w.cur().clone()
			delete(n2, t)
			w.push(n2)
		} else if (resp.Status == 200) != changed && !(resp.Status == 200 && !changed) {
			w.rc.Violate("C06", "admin-status", "%s -> %d, model expected a change=%v", path, resp.Status, changed)
			return
		}
		if resp.Status == 200 && strings.Contains(op.S, "pause") && !strings.HasSuffix(t, "#ephemeral") {
			// acknowledged over HTTP: must be reflected from now on
			if isChan {
				if !strings.HasSuffix(ch, "#ephemeral") && w.cur()[t] != nil {
					if _, ok := w.cur()[t].Channels[ch]; ok {
						w.pauseAck[ck] = op.S == "pause_channel"
					}
				}
			} else if w.cur()[t] != nil {
				w.pauseAck[tk] = op.S == "pause_topic"
			}
		}
		w.snapshot("after ack of " + op.S)
	case "subclose":
		// a consumer creates a channel by subscribing, then leaves
		t, ch := w.name(w.cfg.Topics, op.A), w.name(w.cfg.Channels, op.B)
		next := w.cur().clone()
		if next[t] == nil {
			next[t] = &regTopic{Channels: map[string]bool{}}
		}
		if _, ok := next[t].Channels[ch]; !ok {
			next[t].Channels[ch] = false
		}
		if next.String() != w.cur().String() {
			w.push(next)
		}
		cl, err := dialV2(rc, "sub", w.tcp, "  V2")
		if err != nil {
			return
		}
		cl.Start()
		cl.Cmd("SUB "+t+" "+ch, nil)
		f, ok := cl.WaitFrame(30*time.Second, isNonMsg)
		if !ok || string(f.Data) != "OK" {
			if strings.HasSuffix(t, "#ephemeral") || strings.HasSuffix(ch, "#ephemeral") {
				rc.Probe("sub_raced_ephemeral_delete")
				cl.Close()
				synctest.Wait()
				return
			}
			w.rc.Violate("C06", "sub-failed", "SUB %s %s: %q", t, ch, f.Data)
			return
		}
		cl.Close()
		synctest.Wait()
		// ephemeral objects disappear with their last consumer (they are never persisted anyway)
		if strings.HasSuffix(ch, "#ephemeral") {
			n2 := w.cur().clone()
			delete(n2[t].Channels, ch)
			if strings.HasSuffix(t, "#ephemeral") && len(n2[t].Channels) == 0 {
				delete(n2, t)
			}
			w.push(n2)
		}
	case "second":
		// a second nsqd on a data path that is in use must refuse to start - also after the first has been
		// running for a while: a real process goes through garbage collections (the simulation switches the
		// collector off during a run), which finalise whatever the daemon no longer references
		if op.A%2 == 1 {
			synctest.Wait()
			runtime.GC()
			for i := 0; i < 20; i++ {
				runtime.Gosched()
			}
			runtime.GC()
			rc.Probe("gc_cycles_forced")
		}
		n2, err := nsqd.New(w.options(w.rc.Dir, "127.0.0.1:0", "127.0.0.1:0"))
		if err == nil {
			n2.Exit()
			w.rc.Violate("C06", "second-instance-started", "a second nsqd started on the data path of a running one")
			return
		}
		rc.Probe("second_instance_refused")
	case "restart":
		w.idle(0)
		w.exiting, w.exitTries = true, 0
		w.n.Exit()
		w.exiting = false
		synctest.Wait()
		w.n = nil
		// after Exit the data path is free again
		if !w.start() {
			return
		}
		rc.Probe("restarts")
		// a restarted daemon has the durable part of the registry
		d := w.cur().durable()
		if d.String() != w.cur().String() {
			w.push(d)
		}
		w.idle(0)
		if got := w.liveState(w.n); got.String() != w.cur().String() {
			if w.cfg.Inject == 0 {
				w.rc.Violate("C06", "graceful-restart-registry", "after a graceful restart the registry is %s, expected %s", got, w.cur())
			} else {
				// metadata writes failed (injected): the daemon restarted from an older
				// complete file; the history continues from what it actually loaded
				w.push(got)
				w.pauseAck = map[string]bool{}
				w.idleIdx = len(w.states) - 1
			}
		}
	}
}

func (w *mWorld) liveState(n *nsqd.NSQD) regState {
	s := regState{}
	for _, t := range n.GetStats("", "", false).Topics {
		rt := &regTopic{Paused: t.Paused, Channels: map[string]bool{}}
		for _, c := range t.Channels {
			rt.Channels[c.ChannelName] = c.Paused
		}
		s[t.TopicName] = rt
	}
	return s
}

// ---------------------------------------------------------------- enumeration of the kill points

func (w *mWorld) checkKills() {
	rc := w.rc
	seen := map[string]regState{}
	for i, kp := range w.kills {
		var r regState
		key := string(kp.content)
		if kp.content == nil {
			r = regState{}
		} else if c, ok := seen[key]; ok {
			r = c
		} else {
			dir := filepath.Join(rc.Dir, fmt.Sprintf("kill-%d", i))
			os.MkdirAll(dir, 0755)
			os.WriteFile(filepath.Join(dir, "nsqd.dat"), kp.content, 0600)
			n2, err := nsqd.New(w.options(dir, "127.0.0.1:0", "127.0.0.1:0"))
			if err != nil {
				rc.Violate("C06", "restart-after-kill-failed", "kill %s: nsqd.New: %v", kp.at, err)
				return
			}
			if err := n2.LoadMetadata(); err != nil {
				rc.Violate("C06", "restart-after-kill-failed", "kill %s: LoadMetadata: %v (nsqd.dat %q)", kp.at, err, trunc(kp.content, 100))
				n2.Exit()
				return
			}
			r = w.liveState(n2)
			n2.Exit()
			synctest.Wait()
			os.RemoveAll(dir)
			seen[key] = r
			rc.Probe("restarts_from_kill_point")
		}
		rc.Probe("kill_points_checked")
		// (a) a state the daemon passed through, not older than the last idle point
		ok := false
		for k := kp.lo; k <= kp.hi && !ok; k++ {
			a := w.states[k].durable()
			var b regState
			if k+1 <= kp.hi {
				b = w.states[k+1].durable()
			}
			if between(a, b, r) || a.String() == r.String() {
				ok = true
			}
		}
		if !ok {
			class := "registry-not-passed-through"
			// the stale-deletion shape: r equals an older state that still lists something deleted before the idle point
			for k := 0; k < kp.lo; k++ {
				if w.states[k].durable().String() == r.String() || between(w.states[k].durable(), w.states[k+1].durable(), r) {
					class = "stale-registry-after-idle"
				}
			}
			rc.Violate("C06", class, "kill %s (kill point %d): a restart finds %s; admissible: states %d..%d, the state at the last idle point was %s, the latest %s",
				kp.at, i, r, kp.lo, kp.hi, w.states[kp.lo].durable(), w.states[kp.hi].durable())
			return
		}
		// (b) acknowledged pause/unpause
		if !kp.relaxed {
			for obj, want := range kp.pauseReq {
				var got, exists bool
				if strings.HasPrefix(obj, "topic:") {
					if rt := r[obj[6:]]; rt != nil {
						got, exists = rt.Paused, true
					}
				} else {
					tc := strings.SplitN(obj[5:], "/", 2)
					if rt := r[tc[0]]; rt != nil {
						got, exists = rt.Channels[tc[1]]
					}
				}
				if exists && got != want {
					rc.Violate("C06", "acknowledged-pause-not-persisted", "kill %s: %s paused=%v after restart although paused=%v had been acknowledged over HTTP", kp.at, obj, got, want)
					return
				}
			}
		}
	}
}
