//go:debug asynctimerchan=0

// Package zzverif holds the simulated worlds. It is mounted into the nsq
// module through a build overlay (never written into /repo) so that it may
// import nsq's internal packages.
package zzverif

import (
	"regexp"
	"bytes"
	"encoding/json"
	"flag"
	"fmt"
	"os"
	"path/filepath"
	"runtime"
	"runtime/debug"
	"sort"
	"strings"
	"sync"
	"testing"
	"testing/synctest"
	"time"

	"verifsim/simnet"
	"verifsim/simos"
	"verifsim/simrt"
)

// ---------------------------------------------------------------- PRNG

type PRNG struct{ s uint64 }

func mix64(z uint64) uint64 {
	z = (z ^ (z >> 30)) * 0xbf58476d1ce4e5b9
	z = (z ^ (z >> 27)) * 0x94d049bb133111eb
	return z ^ (z >> 31)
}

func NewPRNG(seed uint64) *PRNG { return &PRNG{s: mix64(seed ^ 0xa5a5a5a5deadbeef)} }

func (p *PRNG) U64() uint64 {
	p.s += 0x9e3779b97f4a7c15
	return mix64(p.s)
}
func (p *PRNG) Intn(n int) int {
	if n <= 0 {
		return 0
	}
	return int(p.U64() % uint64(n))
}
func (p *PRNG) Range(lo, hi int) int { return lo + p.Intn(hi-lo+1) }
func (p *PRNG) Chance(num, den int) bool { return p.Intn(den) < num }
func (p *PRNG) Pick(xs ...int) int      { return xs[p.Intn(len(xs))] }
func (p *PRNG) PickS(xs ...string) string { return xs[p.Intn(len(xs))] }
func (p *PRNG) PickD(xs ...time.Duration) time.Duration { return xs[p.Intn(len(xs))] }

// Weighted picks an index according to weights.
func (p *PRNG) Weighted(w []int) int {
	t := 0
	for _, x := range w {
		t += x
	}
	if t == 0 {
		return 0
	}
	r := p.Intn(t)
	for i, x := range w {
		if r < x {
			return i
		}
		r -= x
	}
	return len(w) - 1
}

// ---------------------------------------------------------------- ops, replay files

// Op is one generated operation. The meaning of the generic argument fields
// depends on Kind and on the world.
type Op struct {
	Uid   int    `json:"uid"`
	Kind  string `json:"k"`
	A     int64  `json:"a,omitempty"`
	B     int64  `json:"b,omitempty"`
	C     int64  `json:"c,omitempty"`
	D     int64  `json:"d,omitempty"`
	S     string `json:"s,omitempty"`
	S2    string `json:"s2,omitempty"`
	Data  []byte `json:"data,omitempty"`
	Burst bool   `json:"burst,omitempty"` // do not settle after this op
}

type Violation struct {
	Property string `json:"property"`
	Class    string `json:"class"`  // stable identifier used for minimisation and known findings
	Detail   string `json:"detail"` // human readable
	Step     int    `json:"step"`
}

type Replay struct {
	World     string          `json:"world"`
	Prop      string          `json:"prop"`
	Seed      uint64          `json:"seed"`
	Cfg       json.RawMessage `json:"cfg"`
	Ops       []Op            `json:"ops"`
	Violation *Violation      `json:"violation,omitempty"`
	Minimised bool            `json:"minimised,omitempty"`
	Trace     []string        `json:"trace,omitempty"`
}

// Result is what one run reports.
type Result struct {
	Seed       uint64            `json:"seed"`
	World      string            `json:"world"`
	Prop       string            `json:"prop"`
	OK         bool              `json:"ok"`
	Violation  *Violation        `json:"violation,omitempty"`
	Ops        int               `json:"ops"`
	SimSeconds float64           `json:"sim_s"`
	WallMs     float64           `json:"wall_ms"`
	Faults     map[string]int64  `json:"faults,omitempty"`
	Probes     map[string]int64  `json:"probes,omitempty"`
	OpsByKind  map[string]int64  `json:"ops_by_kind,omitempty"`
	Finger     string            `json:"finger"`
	Digest     string            `json:"digest"` // digest of the full event log (determinism self-test)
	Yields     uint64            `json:"yields"`
	YCalls     uint64            `json:"ycalls"`
	Steered    uint64            `json:"steered"`
	Nontrivial bool              `json:"nontrivial"`
	State      string            `json:"state,omitempty"` // abstract model state fingerprint
	Replay     string            `json:"replay,omitempty"`
	Sample     json.RawMessage   `json:"sample,omitempty"`
	Known      []string          `json:"known,omitempty"`
	Extra      map[string]string `json:"extra,omitempty"`
}

// ---------------------------------------------------------------- run context

type RunCtx struct {
	World   string
	Prop    string
	Seed    uint64
	Tier    string
	Rng     *PRNG   // generation stream
	Replay  *Replay // non-nil when replaying
	Res     *Result
	Dir     string // scratch directory for this run (created before seeding)
	Sched   *simrt.Sched
	Net     *simnet.World
	log     bytes.Buffer
	traceOn bool
	trace   []string
	step    int
	viol    *Violation
	probes  map[string]int64
	faults  map[string]int64
	opsKind map[string]int64
	start   time.Time
	logMu   sync.Mutex
	cleanup []func()
	ended   bool
	endedAt time.Duration
}

func (rc *RunCtx) Probe(name string)           { rc.probes[name]++ }
func (rc *RunCtx) ProbeN(name string, n int64) { rc.probes[name] += n }
func (rc *RunCtx) Fault(name string)           { rc.faults[name]++ }

// Logf appends to the run's event log (hashed into Result.Digest; dumped on failure).
func (rc *RunCtx) Logf(format string, a ...interface{}) {
	rc.logMu.Lock()
	if rc.ended {
		// after the bubble only the real clock is left: keep the log a function of the seed
		fmt.Fprintf(&rc.log, "%10.6f ", rc.endedAt.Seconds())
	} else {
		fmt.Fprintf(&rc.log, "%10.6f ", time.Since(rc.start).Seconds())
	}
	line := fmt.Sprintf(format, a...)
	if rc.Dir != "" && strings.Contains(line, rc.Dir) {
		line = strings.ReplaceAll(line, rc.Dir, "$DIR") // keep the log (and its digest) independent of the process id
	}
	rc.log.WriteString(line)
	rc.log.WriteByte('\n')
	rc.logMu.Unlock()
}

// Violate records the first violation of the run.
func (rc *RunCtx) Violate(prop, class, format string, a ...interface{}) {
	if rc.viol != nil {
		return
	}
	rc.viol = &Violation{Property: prop, Class: class, Detail: fmt.Sprintf(format, a...), Step: rc.step}
	rc.Logf("VIOLATION %s %s: %s", prop, class, rc.viol.Detail)
}

func (rc *RunCtx) Failed() bool { return rc.viol != nil }

// Reseed re-seeds every seeded stream for step uid (DESIGN §2.3).
func (rc *RunCtx) Reseed(uid int) {
	v := mix64(rc.Seed*0x9e3779b97f4a7c15 + uint64(uid)*0xd1342543de82ef95 + 1)
	if v == 0 {
		v = 1
	}
	runtime.VerifSimSeed(v)
	if rc.Sched != nil {
		rc.Sched.Reseed(mix64(v ^ 0x5555))
	}
}

func (rc *RunCtx) Defer(f func()) { rc.cleanup = append(rc.cleanup, f) }

// MaybeGC: the collector is switched off during a run (its background workers would take part in the
// schedule). Worlds whose oracles produce much garbage (file images read at every stop point) call this
// at step boundaries, at quiescence: above the threshold a collection is forced there.
func (rc *RunCtx) MaybeGC() {
	var mst runtime.MemStats
	runtime.ReadMemStats(&mst)
	if mst.HeapAlloc > 1<<30 {
		synctest.Wait()
		runtime.GC()
		rc.probes["forced_gc_inside_run"]++
	}
}

// ---------------------------------------------------------------- world registry

type worldFunc func(rc *RunCtx)

var worlds = map[string]worldFunc{}

func registerWorld(name string, f worldFunc) { worlds[name] = f }

// ---------------------------------------------------------------- flags and main loop

var (
	flagWorld   = flag.String("world", "", "world type")
	flagProp    = flag.String("prop", "", "property id")
	flagSeed    = flag.Uint64("seed", 1, "first seed")
	flagCount   = flag.Int("count", 1, "number of seeds (seed, seed+stride, ...)")
	flagStride  = flag.Uint64("stride", 1, "seed stride")
	flagReplay  = flag.String("replay", "", "replay file")
	flagOut     = flag.String("out", "", "result file (JSON lines)")
	flagTier    = flag.String("tier", "quick", "tier")
	flagScratch = flag.String("scratch", "/dev/shm", "scratch root")
	flagBudget  = flag.Duration("budget", 0, "wall budget for this worker (0 = run all seeds)")
	flagWatch   = flag.Duration("watchdog", 60*time.Second, "per-run wall watchdog")
	flagDump    = flag.Bool("dumplog", false, "print the event log of every run")
	flagReplays = flag.String("replaydir", "", "directory for replay files of violations")
	flagKeep    = flag.Int("samples", 1, "number of sample traces to emit")
	flagGenOnly = flag.String("genonly", "", "write the generated configuration and operations of -seed to this file and exit")
)

func TestSim(t *testing.T) {
	if *flagWorld == "" && *flagReplay == "" {
		t.Skip("no -world")
	}
	theT = t
	runtime.GOMAXPROCS(1)
	debug.SetGCPercent(-1)
	// safety valve: with the collector off a single huge run could take many GB (16 workers share the
	// machine); near this limit the runtime collects by itself, whatever that does to the schedule of
	// that one run
	debug.SetMemoryLimit(3 << 30)
	var out *os.File
	if *flagOut != "" {
		f, err := os.OpenFile(*flagOut, os.O_CREATE|os.O_WRONLY|os.O_APPEND, 0644)
		if err != nil {
			t.Fatal(err)
		}
		out = f
		defer f.Close()
	}
	emit := func(v interface{}) {
		b, _ := json.Marshal(v)
		if out != nil {
			out.Write(append(b, '\n'))
		} else {
			fmt.Println(string(b))
		}
	}
	if *flagReplay != "" {
		b, err := os.ReadFile(*flagReplay)
		if err != nil {
			fmt.Println("REPLAY-ERROR", err)
			os.Exit(2)
		}
		var rp Replay
		if err := json.Unmarshal(b, &rp); err != nil {
			fmt.Println("REPLAY-ERROR", err)
			os.Exit(2)
		}
		emit(map[string]interface{}{"begin": rp.Seed, "replay": true})
		res := runOne(rp.World, rp.Prop, rp.Seed, &rp)
		emit(res)
		return
	}
	deadline := time.Time{}
	if *flagBudget > 0 {
		deadline = time.Now().Add(*flagBudget)
	}
	samples := 0
	for i := 0; i < *flagCount; i++ {
		if !deadline.IsZero() && time.Now().After(deadline) {
			break
		}
		seed := *flagSeed + uint64(i)**flagStride
		emit(map[string]interface{}{"begin": seed})
		res := runOne(*flagWorld, *flagProp, seed, nil)
		if samples >= *flagKeep && res.OK {
			res.Sample = nil
		} else if res.Sample != nil {
			samples++
		}
		emit(res)
		// the collector is off during a run; collect between runs - at the latest every 50 runs,
		// at once when a run left much behind (the application worlds: gzip writers, file images)
		var mst runtime.MemStats
		runtime.ReadMemStats(&mst)
		if i%50 == 49 || mst.HeapAlloc > 768<<20 {
			runtime.GC()
			if mst.HeapAlloc > 768<<20 {
				debug.FreeOSMemory()
			}
		}
	}
	emit(map[string]interface{}{"done": true})
}

// TestMain: in the race build the testing package marks the test failed for
// every report (including the harness's own, deliberately unsynchronised
// state); results are taken from the result file, not from the exit code.
func TestMain(m *testing.M) {
	code := m.Run()
	if raceBuild {
		code = 0
	}
	os.Exit(code)
}

var runCounter int

var theT *testing.T

func runOne(world, prop string, seed uint64, rp *Replay) *Result {
	wf := worlds[world]
	if wf == nil {
		fmt.Println("UNKNOWN-WORLD", world)
		os.Exit(2)
	}
	runCounter++
	dir := filepath.Join(*flagScratch, fmt.Sprintf("vsim-%d-%d", os.Getpid(), runCounter))
	os.RemoveAll(dir)
	if err := os.MkdirAll(dir, 0755); err != nil {
		fmt.Println("SCRATCH-ERROR", err)
		os.Exit(2)
	}
	defer os.RemoveAll(dir)
	rc := &RunCtx{World: world, Prop: prop, Seed: seed, Tier: *flagTier, Rng: NewPRNG(seed), Replay: rp, Dir: dir,
		probes: map[string]int64{}, faults: map[string]int64{}, opsKind: map[string]int64{}}
	rc.Res = &Result{Seed: seed, World: world, Prop: prop}
	wall0 := time.Now()
	// wall-clock watchdog (outside the bubble: real time)
	done := make(chan struct{})
	go func() {
		select {
		case <-done:
		case <-time.After(*flagWatch):
			fmt.Printf("WATCHDOG world=%s prop=%s seed=%d step=%d\n", world, prop, seed, rc.step)
			buf := make([]byte, 1<<20)
			n := runtime.Stack(buf, true)
			os.Stdout.Write(buf[:n])
			rc.logMu.Lock()
			os.Stdout.Write(tail(rc.log.Bytes(), 8000))
			rc.logMu.Unlock()
			os.Exit(3)
		}
	}()
	var simElapsed time.Duration
	var bubblePanic interface{}
	var bubbleStacks string
	inner := func() {
		defer func() {
			if r := recover(); r != nil {
				bubblePanic = r
				buf := make([]byte, 1<<20)
				n := runtime.Stack(buf, true)
				bubbleStacks = string(buf[:n])
			}
		}()
		synctest.Test(theT, func(_ *testing.T) {
			// The bubble clock starts at 2000-01-01; nsqd's id generator needs
			// a time after its 2010 epoch.
			time.Sleep(time.Until(time.Date(2026, 1, 1, 0, 0, 0, 0, time.UTC)))
			rc.start = time.Now()
			rc.Net = simnet.NewWorld()
			rc.Net.Yield = simrt.Y
			simnet.Install(rc.Net)
			rc.Sched = &simrt.Sched{}
			simrt.Install(rc.Sched)
			simos.Yield = simrt.Y
			rc.Reseed(-1)
			defer func() {
				for i := len(rc.cleanup) - 1; i >= 0; i-- {
					rc.cleanup[i]()
				}
				simrt.Install(nil)
				simnet.Install(nil)
				simos.Install(nil)
				simos.Yield = nil
				runtime.VerifSimSeed(0)
				simElapsed = time.Since(rc.start)
			}()
			wf(rc)
		})
	}
	if raceBuild {
		// a detected race makes synctest.Test end its goroutine (FailNow)
		ch := make(chan struct{})
		go func() { defer close(ch); inner() }()
		<-ch
	} else {
		inner()
	}
	close(done)
	rc.ended, rc.endedAt = true, simElapsed
	simrt.Install(nil)
	simnet.Install(nil)
	simos.Install(nil)
	runtime.VerifSimSeed(0)
	if bubblePanic != nil {
		msg := fmt.Sprint(bubblePanic)
		if strings.Contains(msg, "main bubble goroutine has exited") {
			// goroutines left behind at the end of the run (e.g. the disk-queue
			// loop of an orphaned channel): recorded, not a property violation
			rc.Probe("goroutines_left_at_end")
			rc.Logf("goroutines left at end: %s", blockedSummary(bubbleStacks))
		} else if strings.Contains(msg, "deadlock") {
			// every goroutine of the bubble is durably blocked and nothing can wake them
			rc.Violate(rc.Prop, "deadlock", "bubble deadlock after step %d: %s; blocked: %s", rc.step, firstLine(msg), blockedSummary(bubbleStacks))
			rc.Logf("goroutines at deadlock:\n%s", bubbleStacks)
		} else {
			fmt.Printf("HARNESS-PANIC world=%s seed=%d: %v\n%s\n", world, seed, bubblePanic, debug.Stack())
			os.Stdout.Write(tail(rc.log.Bytes(), 6000))
			os.Exit(4)
		}
	}
	if raceBuild {
		if sigs := collectRaces(); len(sigs) > 0 {
			rc.Probe("data_races_in_daemon_code")
			rc.Violate(rc.Prop, "data-race", "unsynchronised accesses in daemon code: %s", strings.Join(sigs, "; "))
		}
	}
	res := rc.Res
	res.OK = rc.viol == nil
	res.Violation = rc.viol
	res.SimSeconds = simElapsed.Seconds()
	res.WallMs = float64(time.Since(wall0).Microseconds()) / 1000
	res.Probes = rc.probes
	res.Faults = rc.faults
	res.OpsByKind = rc.opsKind
	if rc.Sched != nil {
		res.Finger = fmt.Sprintf("%016x", rc.Sched.Fingerprint())
		res.Yields = rc.Sched.Yields
		res.YCalls = rc.Sched.Calls
		res.Steered = rc.Sched.Steered
		if rc.Sched.Longs > 0 {
			rc.faults["long_delay_of_one_goroutine"] += int64(rc.Sched.Longs)
		}
	}
	res.Digest = fmt.Sprintf("%016x", fnv(rc.log.Bytes()))
	if *flagDump {
		os.Stdout.Write(rc.log.Bytes())
	}
	if rc.viol != nil && *flagReplays != "" && rp == nil && rc.Res.Replay == "" && rc.viol.Class != "data-race" && rc.viol.Class != "deadlock" {
		// worlds normally write their own replay; fall back to seed-only
		rc.writeReplay(nil, nil)
	}
	return res
}

// GenOnly: when -genonly is given the world stops after generation and the
// runner gets the explicit operation list of a seed (used for crashing seeds).
func (rc *RunCtx) GenOnly(cfg interface{}, ops []Op) bool {
	if *flagGenOnly == "" {
		return false
	}
	cb, _ := json.Marshal(cfg)
	rp := Replay{World: rc.World, Prop: rc.Prop, Seed: rc.Seed, Cfg: cb, Ops: ops}
	b, _ := json.MarshalIndent(rp, "", " ")
	os.WriteFile(*flagGenOnly, b, 0644)
	return true
}

func (rc *RunCtx) writeReplay(cfg interface{}, ops []Op) {
	if *flagReplays == "" {
		return
	}
	os.MkdirAll(*flagReplays, 0755)
	cb, _ := json.Marshal(cfg)
	rp := Replay{World: rc.World, Prop: rc.Prop, Seed: rc.Seed, Cfg: cb, Ops: ops, Violation: rc.viol}
	lines := strings.Split(string(tail(rc.log.Bytes(), 20000)), "\n")
	if len(lines) > 120 {
		lines = lines[len(lines)-120:]
	}
	rp.Trace = lines
	b, _ := json.MarshalIndent(rp, "", " ")
	prop := rc.Prop
	if rc.viol != nil {
		prop = rc.viol.Property
	}
	p := filepath.Join(*flagReplays, fmt.Sprintf("%s-%s-%d.json", prop, rc.World, rc.Seed))
	os.WriteFile(p, b, 0644)
	rc.Res.Replay = p
}

// blockedSummary lists the top nsq frame of every goroutine in a stack dump.
var hexArgRe = regexp.MustCompile(`0x[0-9a-f]+`)

func blockedSummary(stacks string) string {
	stacks = hexArgRe.ReplaceAllString(stacks, "0x?") // heap addresses are not a function of the seed
	var out []string
	seen := map[string]int{}
	for _, g := range strings.Split(stacks, "\n\n") {
		if !strings.Contains(g, "synctest bubble") {
			continue
		}
		top := ""
		for _, ln := range strings.Split(g, "\n") {
			if strings.HasPrefix(ln, "github.com/nsqio/") || strings.HasPrefix(ln, "verifsim/") {
				top = ln
				if i := strings.IndexByte(top, '('); i > 0 && !strings.HasPrefix(top[i:], "(*") {
					top = top[:i]
				}
				break
			}
		}
		if top == "" {
			top = firstLine(g)
		}
		if seen[top] == 0 {
			out = append(out, top)
		}
		seen[top]++
	}
	sort.Strings(out)
	if len(out) > 8 {
		out = out[:8]
	}
	return strings.Join(out, " | ")
}

func tail(b []byte, n int) []byte {
	if len(b) > n {
		return b[len(b)-n:]
	}
	return b
}

func firstLine(s string) string {
	if i := strings.IndexByte(s, '\n'); i >= 0 {
		return s[:i]
	}
	return s
}

func fnv(b []byte) uint64 {
	h := uint64(14695981039346656037)
	for _, c := range b {
		h = (h ^ uint64(c)) * 1099511628211
	}
	return h
}

func sortedKeys(m map[string]int64) []string {
	ks := make([]string, 0, len(m))
	for k := range m {
		ks = append(ks, k)
	}
	sort.Strings(ks)
	return ks
}

// simLogger collects daemon log lines into the run log.
type simLogger struct {
	rc   *RunCtx
	name string
	// lines containing one of these substrings are counted as probes
}

func (l *simLogger) Output(depth int, s string) error {
	l.rc.Logf("[%s] %s", l.name, s)
	if strings.Contains(s, "messagePump error") {
		l.rc.probes["log_messagepump_error"]++
	}
	return nil
}
