package zzverif

import (
	"regexp"
	"bytes"
	"encoding/binary"
	"encoding/json"
	"fmt"
	"net/url"
	"sort"
	"strings"
	"testing/synctest"
	"time"

	"github.com/nsqio/nsq/nsqlookupd"

	"verifsim/simnet"
)

type simnetConn = simnet.Conn

func init() { registerWorld("lookupd", lookupdWorld) }

// LCfg is the drawn configuration of a lookupd-world run.
type LCfg struct {
	InactiveMs  int64    `json:"inactive_ms"`
	TombstoneMs int64    `json:"tombstone_ms"`
	Topics      []string `json:"topics"`
	Channels    []string `json:"channels"`
	NProducers  int      `json:"n_producers"`
	YieldProb   uint32   `json:"yield_prob"`
	ShortReads  int      `json:"short_reads"`
	Hostile     bool     `json:"hostile"`
	Twin        bool     `json:"twin,omitempty"`       // the last producer advertises the same address and ports as the first (an nsqd that reconnected while its old connection lingers)
	Conc        bool     `json:"conc,omitempty"`       // bursts of arbitrary (non-commuting) commands, checked against all interleavings of the key-level reference
	Enum        int      `json:"enum,omitempty"`       // >0: this run is history number EnumIndex of the exhaustive enumeration of length Enum
	EnumIndex   int64    `json:"enum_index,omitempty"`
	EnumMirror  bool     `json:"enum_mirror,omitempty"` // mirror image (producers swapped) of another history of the enumeration: not run
}

type lPeer struct {
	idx        int
	cl         *V2Client // raw V1 client (length-prefixed responses, no frame type)
	connected  bool
	identified bool
	lastUpdate time.Time
	bcast      string
	tcpPort    int
	httpPort   int
	hostname   string
	remote     string
	buf        []byte
}

type lKey struct{ cat, key, sub string }

type lWorld struct {
	rc    *RunCtx
	cfg   LCfg
	l     *nsqlookupd.NSQLookupd
	tcp   string
	http  string
	peers []*lPeer
	// model
	keys  map[lKey]map[int]bool      // registration key -> producer indexes
	tomb  map[lKey]map[int]time.Time // topic key -> producer -> tombstoned at
	fuzzy map[lKey]bool              // ephemeral keys whose presence is not specified (empty after a disconnect)
	hostileTouched map[lKey]bool     // keys a hostile connection may have registered for itself
	ended bool // stop checking this run (an undecided concurrent burst)
}

func (w *lWorld) violate(prop, class, format string, a ...interface{}) {
	if prop != w.rc.Prop && w.rc.Prop != "ALL" {
		w.rc.Logf("(not enforced here) %s %s: %s", prop, class, fmt.Sprintf(format, a...))
		return
	}
	w.rc.Violate(prop, class, format, a...)
}

func genLCfg(rc *RunCtx) LCfg {
	r := rc.Rng
	c := LCfg{}
	c.InactiveMs = int64(r.Pick(5000, 30000, 300000))
	c.TombstoneMs = int64(r.Pick(2000, 10000, 45000))
	c.Topics = []string{"t0", "t1", "e#ephemeral"}[:r.Range(1, 3)]
	c.Channels = []string{"c0", "c1", "x#ephemeral"}[:r.Range(1, 3)]
	c.NProducers = r.Range(1, 4)
	c.YieldProb = uint32(r.Pick(0, 1024, 4096, 16384))
	c.ShortReads = r.Pick(0, 0, 2, 8)
	c.Hostile = rc.Prop == "C15"
	c.Twin = !c.Hostile && c.NProducers >= 2 && r.Chance(1, 4)
	c.Conc = !c.Hostile && !c.Twin && r.Chance(1, 2)
	return c
}

func genLOps(rc *RunCtx, c LCfg) []Op {
	r := rc.Rng
	n := r.Range(15, 80)
	var ops []Op
	add := func(o Op) { o.Uid = len(ops); ops = append(ops, o) }
	for i := 0; i < c.NProducers; i++ {
		add(Op{Kind: "connect", A: int64(i)})
		add(Op{Kind: "identify", A: int64(i)})
	}
	w := []int{3, 4, 24, 12, 8, 4, 3, 3, 4, 3, 3, 4, 14, 0}
	if c.Hostile {
		w = []int{2, 2, 8, 3, 3, 2, 1, 1, 1, 1, 1, 1, 4, 60}
	}
	for len(ops) < n {
		var o Op
		p := int64(r.Intn(c.NProducers))
		t, ch := int64(r.Intn(8)), int64(r.Intn(8))
		switch r.Weighted(w) {
		case 0:
			o = Op{Kind: "connect", A: p}
		case 1:
			o = Op{Kind: "identify", A: p, B: int64(r.Intn(6))}
		case 2:
			o = Op{Kind: "register", A: p, B: t, C: ch, D: int64(r.Intn(3))} // D==0: topic only
		case 3:
			o = Op{Kind: "unregister", A: p, B: t, C: ch, D: int64(r.Intn(3))}
		case 4:
			o = Op{Kind: "ping", A: p}
		case 5:
			o = Op{Kind: "close", A: p, B: int64(r.Intn(2))}
		case 6:
			o = Op{Kind: "http", S: "create_topic", B: t}
		case 7:
			o = Op{Kind: "http", S: "delete_topic", B: t}
		case 8:
			o = Op{Kind: "http", S: "create_channel", B: t, C: ch}
		case 9:
			o = Op{Kind: "http", S: "delete_channel", B: t, C: ch}
		case 10:
			o = Op{Kind: "http", S: "tombstone", B: t, A: p, D: int64(r.Intn(5))}
		case 11:
			o = Op{Kind: "ping", A: p, Burst: true}
		case 12:
			ms := []int64{1, 100, 1000, c.TombstoneMs - 1, c.TombstoneMs, c.TombstoneMs + 1, c.InactiveMs - 1, c.InactiveMs, c.InactiveMs + 1, c.InactiveMs / 2, c.TombstoneMs / 2}
			o = Op{Kind: "adv", A: ms[r.Intn(len(ms))]}
		case 13:
			o = genHostile(r, c)
		}
		if c.Conc {
			// concurrent bursts: anything goes (same topic, admin calls, disconnects); the oracle explores the interleavings
			if (o.Kind == "register" || o.Kind == "unregister" || o.Kind == "ping" || o.Kind == "http" || o.Kind == "close") && r.Chance(1, 2) {
				o.Burst = true
				if r.Chance(1, 4) {
					add(Op{Kind: "bgread", Burst: true, S: r.PickS("/debug", "/nodes", "/topics", "/lookup?topic=t0", "/channels?topic=t0", "/debug")})
				}
			}
			add(o)
			continue
		}
		// bursts: operations of distinct producers on distinct topics commute
		if (o.Kind == "register" || o.Kind == "unregister" || o.Kind == "ping") && r.Chance(1, 4) {
			o.Burst = true
			if r.Chance(1, 2) {
				add(Op{Kind: "bgread", Burst: true, S: r.PickS("/debug", "/nodes", "/topics", "/lookup?topic=t0", "/channels?topic=t0", "/debug")})
			}
		}
		add(o)
	}
	return ops
}

// ---------------------------------------------------------------- hostile input (C15)

func genHostile(r *PRNG, c LCfg) Op {
	if r.Chance(1, 6) {
		// a connection that claims, inside its IDENTIFY body, to be another producer's connection
		return Op{Kind: "spoof", A: int64(r.Intn(4)), B: int64(r.Intn(3)), C: int64(r.Intn(8))}
	}
	switch r.Intn(4) {
	case 0: // raw TCP byte stream on a fresh connection
		return Op{Kind: "rawtcp", Data: genHostileTCP(r, c), A: int64(r.Intn(3))}
	case 1: // hostile command on an identified connection of its own
		return Op{Kind: "hostilecmd", S: genHostileLine(r, c), A: int64(r.Intn(2))}
	case 2:
		return Op{Kind: "rawhttp", S: genHostileHTTP(r, c)}
	default:
		return Op{Kind: "rawtcp", Data: genHostileTCP(r, c), A: 0}
	}
}

func be32(v int32) []byte {
	var b [4]byte
	binary.BigEndian.PutUint32(b[:], uint32(v))
	return b[:]
}

func genHostileTCP(r *PRNG, c LCfg) []byte {
	var b bytes.Buffer
	switch r.Intn(6) {
	case 0:
		b.WriteString(r.PickS("  V2", "V1  ", "\x00\x00\x00\x00", "GET ", "  v1", "  V1"))
	default:
		b.WriteString("  V1")
	}
	n := r.Range(1, 4)
	for i := 0; i < n; i++ {
		switch r.Intn(9) {
		case 0: // IDENTIFY with assorted sizes
			b.WriteString("IDENTIFY\n")
			size := []int32{0, -1, -2147483648, 1, 2, 10, 100, 1 << 20, 2147483647, 1 << 28, 50}[r.Intn(11)]
			b.Write(be32(size))
			body := []string{`{}`, `{"broadcast_address":"h","tcp_port":1,"http_port":2,"version":"1"}`, `{"tcp_port":"x"}`, `[1,2`, `nul`, "\xff\xfe", `{"broadcast_address":"","tcp_port":0}`}[r.Intn(7)]
			if r.Chance(1, 2) && size > 0 && int(size) <= len(body) {
				b.WriteString(body[:size])
			} else {
				b.WriteString(body)
			}
		case 1:
			b.WriteString(genHostileLine(r, c) + "\n")
		case 2:
			b.WriteString("REGISTER " + r.PickS("t0", "bad topic", strings.Repeat("a", 65), "", "t0 c0 extra", "#ephemeral", "t.0_-") + "\n")
		case 3:
			for j := 0; j < r.Range(1, 40); j++ {
				b.WriteByte(byte(r.Intn(256)))
			}
			if r.Chance(1, 2) {
				b.WriteByte('\n')
			}
		case 4:
			b.WriteString("PING\n")
		case 5:
			b.WriteString(strings.Repeat("A", r.Pick(100, 4096, 70000)))
			if r.Chance(1, 2) {
				b.WriteByte('\n')
			}
		case 6:
			b.WriteString("IDENTIFY\n")
			body := `{"broadcast_address":"hx","tcp_port":7,"http_port":8,"version":"1","hostname":"hx"}`
			b.Write(be32(int32(len(body))))
			b.WriteString(body)
		case 7:
			b.WriteString("UNREGISTER " + r.PickS("t0", "t0 c0", "t1", "nope", "t0 bad|chan", "e#ephemeral x#ephemeral") + "\n")
		case 8:
			b.WriteString("\n\r\n \n")
		}
	}
	return b.Bytes()
}

func genHostileLine(r *PRNG, c LCfg) string {
	return []string{"FOO", "identify", "REGISTER", "UNREGISTER", "REGISTER bad$topic", "REGISTER t0 bad$chan", "REGISTER " + strings.Repeat("x", 65),
		"UNREGISTER t0 " + strings.Repeat("y", 65), "PING extra args", "REGISTER t0 c0 more", "", " ", "REGISTER  t0", "SUB t0 c0", "IDENTIFY"}[r.Intn(15)]
}

func genHostileHTTP(r *PRNG, c LCfg) string {
	routes := []string{"/ping", "/info", "/debug", "/lookup", "/topics", "/channels", "/nodes", "/topic/create", "/topic/delete", "/channel/create",
		"/channel/delete", "/topic/tombstone", "/nope", "/", "/lookup/extra", "/debug/pprof/"}
	method := r.PickS("GET", "POST", "PUT", "DELETE", "HEAD", "PATCH", "GET", "POST")
	args := []string{"", "topic=t0", "topic=", "topic=bad%20topic", "topic=" + strings.Repeat("z", 65), "topic=t0&channel=c0", "topic=t0&channel=", "channel=c0",
		"topic=t0&node=", "topic=t0&node=nohost:1", "topic=%zz", "topic=zzz_hostile&channel=c9", "topic=zzz_hostile", "node=x", "topic=t0&channel=bad%7Cchan", "a=b&&&==", "topic=zzz_hostile#ephemeral"}
	q := args[r.Intn(len(args))]
	p := routes[r.Intn(len(routes))]
	if q != "" {
		p += "?" + q
	}
	return method + " " + p
}

// ---------------------------------------------------------------- the world

func lookupdWorld(rc *RunCtx) {
	w := &lWorld{rc: rc, keys: map[lKey]map[int]bool{}, tomb: map[lKey]map[int]time.Time{}, fuzzy: map[lKey]bool{}}
	var ops []Op
	if rc.Replay != nil {
		if err := json.Unmarshal(rc.Replay.Cfg, &w.cfg); err != nil {
			panic(err)
		}
		ops = rc.Replay.Ops
	} else if n, idx := lEnumFor(rc); n > 0 {
		w.cfg, ops = genLEnum(idx, n)
	} else {
		w.cfg = genLCfg(rc)
		ops = genLOps(rc, w.cfg)
	}
	c := w.cfg
	if rc.GenOnly(c, ops) {
		return
	}
	if c.EnumMirror {
		rc.Probe("enumerated_histories_len" + fmt.Sprint(c.Enum) + "_mirror_images_skipped")
		rc.Res.Ops = 0
		return
	}
	rc.Sched.Prob = c.YieldProb
	netRng := NewPRNG(rc.Seed ^ 0x99)
	installShortReads(rc, c.ShortReads, &netRng)
	opts := nsqlookupd.NewOptions()
	opts.Logger = &simLogger{rc: rc, name: "lookupd"}
	opts.TCPAddress = "127.0.0.1:4160"
	opts.HTTPAddress = "127.0.0.1:4161"
	opts.BroadcastAddress = "lookupd.sim"
	opts.InactiveProducerTimeout = ms(c.InactiveMs)
	opts.TombstoneLifetime = ms(c.TombstoneMs)
	l, err := nsqlookupd.New(opts)
	if err != nil {
		rc.Violate(rc.Prop, "startup-failed", "%v", err)
		return
	}
	w.l = l
	done := make(chan error, 1)
	go func() { done <- l.Main() }()
	rc.Defer(func() { l.Exit(); synctest.Wait() })
	w.tcp, w.http = "127.0.0.1:4160", "127.0.0.1:4161"
	for i := 0; i < c.NProducers; i++ {
		w.peers = append(w.peers, &lPeer{idx: i, bcast: fmt.Sprintf("nsqd%d.sim", i), tcpPort: 4150 + 10*i, httpPort: 4151 + 10*i, hostname: fmt.Sprintf("host%d", i)})
	}
	if c.Twin && len(w.peers) >= 2 {
		a, b := w.peers[0], w.peers[len(w.peers)-1]
		b.bcast, b.tcpPort, b.httpPort, b.hostname = a.bcast, a.tcpPort, a.httpPort, a.hostname
	}
	synctest.Wait()
	rc.Logf("cfg %+v", c)
	var burst []Op
	for i, op := range ops {
		rc.step = i + 1
		rc.Reseed(op.Uid)
		netRng = NewPRNG(rc.Seed*131 + uint64(op.Uid))
		rc.opsKind[op.Kind]++
		rc.Logf("op %d uid=%d %s a=%d b=%d c=%d d=%d s=%q burst=%v", i, op.Uid, op.Kind, op.A, op.B, op.C, op.D, op.S, op.Burst)
		if op.Burst && w.burstCompatible(burst, op) {
			burst = append(burst, op)
			continue
		}
		w.runBurst(burst)
		burst = nil
		if rc.Failed() || w.ended {
			break
		}
		w.exec(op)
		synctest.Wait()
		w.checkReads()
		if rc.Failed() {
			break
		}
	}
	if !rc.Failed() && !w.ended {
		w.runBurst(burst)
		if !rc.Failed() && !w.ended {
			w.checkReads()
		}
	}
	if c.Enum > 0 && !rc.Failed() {
		if c.EnumMirror {
			rc.Probe(fmt.Sprintf("enumerated_histories_len%d_mirror_images_skipped", c.Enum))
		} else {
			rc.Probe(fmt.Sprintf("enumerated_histories_len%d", c.Enum))
		}
	}
	rc.Res.Ops = len(ops)
	rc.Res.Nontrivial = rc.probes["reads_checked"] > 0 && len(ops) > 4
	rc.Res.State = fmt.Sprintf("%016x", fnv([]byte(w.modelString())))
	sample := map[string]interface{}{"seed": rc.Seed, "cfg": c, "ops_head": head(ops, 16), "n_ops": len(ops), "final_model": w.modelString()}
	rc.Res.Sample, _ = json.Marshal(sample)
	if rc.Failed() {
		rc.writeReplay(c, ops)
	}
}

func installShortReads(rc *RunCtx, n int, rng **PRNG) {
	_ = simnet.RefuseNone
	if n <= 0 {
		return
	}
	rc.Net.ReadChunk = func(_ *simnetConn, avail int) int {
		if (*rng).Intn(n) != 0 {
			return avail
		}
		rc.faults["short_read"]++
		return 1 + (*rng).Intn(avail)
	}
}

func (w *lWorld) topicName(i int64) string { return w.cfg.Topics[int(uint64(i)%uint64(len(w.cfg.Topics)))] }
func (w *lWorld) chanName(i int64) string {
	return w.cfg.Channels[int(uint64(i)%uint64(len(w.cfg.Channels)))]
}

// burstCompatible: only operations of distinct producers on distinct topics
// (they commute, so the expected state after the burst is unambiguous).
func (w *lWorld) burstCompatible(burst []Op, op Op) bool {
	if w.cfg.Conc {
		if !w.concCompatible(burst, op) {
			return false
		}
		// keys whose presence is unspecified would need a non-deterministic snapshot in the reference: keep such topics sequential
		for k := range w.fuzzy {
			if op.Kind == "close" || k.key == w.topicName(op.B) {
				return false
			}
		}
		return true
	}
	if len(burst) >= 4 {
		return false
	}
	if op.Kind == "bgread" {
		return true // read-only
	}
	for _, b := range burst {
		if b.Kind == "bgread" {
			continue
		}
		if b.A == op.A {
			return false
		}
		if b.Kind == "register" && op.Kind == "register" {
			continue // registrations of different producers commute, also on the same (possibly new) topic/channel
		}
		if b.Kind != "ping" && op.Kind != "ping" && w.topicName(b.B) == w.topicName(op.B) {
			return false
		}
	}
	return true
}

func (w *lWorld) runBurst(burst []Op) {
	if len(burst) == 0 {
		return
	}
	if w.cfg.Conc {
		w.runConcBurst(burst)
		return
	}
	w.rc.Probe("bursts")
	// issue everything, then collect the answers
	type pend struct {
		op Op
		p  *lPeer
	}
	var ps []pend
	var bg []chan HTTPResp
	for _, op := range burst {
		if op.Kind == "bgread" {
			// an HTTP read in flight while the producers' commands are processed
			ch := make(chan HTTPResp, 1)
			path := op.S
			go func() { ch <- httpDo(w.rc, "GET", w.http, path, nil, nil, nil, 30*time.Second) }()
			bg = append(bg, ch)
			w.rc.Probe("concurrent_reads")
			continue
		}
		p := w.peers[int(uint64(op.A)%uint64(len(w.peers)))]
		if !p.connected {
			continue
		}
		w.send(p, op)
		ps = append(ps, pend{op, p})
	}
	synctest.Wait()
	for _, x := range ps {
		w.complete(x.p, x.op)
	}
	for _, ch := range bg {
		if r := <-ch; r.Err != nil || (r.Status != 200 && r.Status != 404) {
			w.violate("C15", "read-failed", "concurrent HTTP read answered %d err=%v", r.Status, r.Err)
		}
	}
	synctest.Wait()
}

// ---------------------------------------------------------------- producer protocol

func (w *lWorld) line(op Op) string {
	t, ch := w.topicName(op.B), w.chanName(op.C)
	switch op.Kind {
	case "register":
		if op.D == 0 {
			return "REGISTER " + t
		}
		return "REGISTER " + t + " " + ch
	case "unregister":
		if op.D == 0 {
			return "UNREGISTER " + t
		}
		return "UNREGISTER " + t + " " + ch
	case "ping":
		return "PING"
	}
	return ""
}

func (w *lWorld) send(p *lPeer, op Op) {
	p.cl.Send([]byte(w.line(op) + "\n"))
}

// readResp reads one length-prefixed response from the raw stream.
func (w *lWorld) readResp(p *lPeer, timeout time.Duration) ([]byte, bool) {
	deadline := time.Now().Add(timeout)
	for {
		p.cl.mu.Lock()
		p.buf = append(p.buf, p.cl.Raw...)
		p.cl.Raw = nil
		closed := p.cl.closed
		p.cl.mu.Unlock()
		if len(p.buf) >= 4 {
			n := int(int32(binary.BigEndian.Uint32(p.buf[:4])))
			if n >= 0 && len(p.buf) >= 4+n {
				out := p.buf[4 : 4+n]
				p.buf = p.buf[4+n:]
				return out, true
			}
		}
		if closed || !time.Now().Before(deadline) {
			return nil, false
		}
		p.cl.mu.Lock()
		if len(p.cl.Raw) == 0 && !p.cl.closed {
			t := time.AfterFunc(time.Until(deadline), func() { p.cl.mu.Lock(); p.cl.cond.Broadcast(); p.cl.mu.Unlock() })
			p.cl.cond.Wait()
			t.Stop()
		}
		p.cl.mu.Unlock()
	}
}

func (w *lWorld) exec(op Op) {
	rc := w.rc
	switch op.Kind {
	case "adv":
		time.Sleep(ms(op.A))
		return
	case "bgread":
		httpDo(rc, "GET", w.http, op.S, nil, nil, nil, 30*time.Second)
		return
	case "http":
		w.execHTTP(op)
		return
	case "rawtcp", "hostilecmd", "rawhttp", "spoof":
		w.execHostile(op)
		return
	}
	p := w.peers[int(uint64(op.A)%uint64(len(w.peers)))]
	switch op.Kind {
	case "connect":
		if p.connected {
			return
		}
		cl, err := dialV2(rc, fmt.Sprintf("prod%d", p.idx), w.tcp, "  V1")
		if err != nil {
			rc.Logf("connect: %v", err)
			return
		}
		cl.RawMode = true
		cl.Start()
		p.cl, p.connected, p.identified, p.buf = cl, true, false, nil
		p.remote = cl.Conn.LocalAddr().String()
	case "identify":
		if !p.connected {
			return
		}
		body := fmt.Sprintf(`{"broadcast_address":%q,"tcp_port":%d,"http_port":%d,"version":"1.3.0-sim","hostname":%q}`, p.bcast, p.tcpPort, p.httpPort, p.hostname)
		switch op.B {
		case 4: // missing field
			body = fmt.Sprintf(`{"broadcast_address":%q,"tcp_port":%d,"version":"1"}`, p.bcast, p.tcpPort)
		case 5: // malformed json
			body = `{"broadcast_address":`
		}
		var b bytes.Buffer
		b.WriteString("IDENTIFY\n")
		b.Write(be32(int32(len(body))))
		b.WriteString(body)
		p.cl.Send(b.Bytes())
		resp, ok := w.readResp(p, 10*time.Second)
		switch {
		case p.identified:
			w.expectFatal(p, resp, ok, "E_INVALID", "second IDENTIFY")
		case op.B >= 4:
			w.expectFatal(p, resp, ok, "E_BAD_BODY", "IDENTIFY with bad body")
		default:
			if !ok || !bytes.Contains(resp, []byte(`"tcp_port"`)) {
				w.violate("C14", "identify-failed", "producer %d: IDENTIFY answered %q ok=%v", p.idx, resp, ok)
				return
			}
			p.identified = true
			p.lastUpdate = time.Now()
			w.add(lKey{"client", "", ""}, p.idx)
		}
	case "register", "unregister", "ping":
		if !p.connected {
			return
		}
		w.send(p, op)
		w.complete(p, op)
	case "close":
		if !p.connected {
			return
		}
		if op.B == 1 {
			p.cl.Conn.Reset()
			rc.Fault("conn_reset")
		} else {
			p.cl.Close()
			rc.Fault("conn_close")
		}
		w.peerGone(p)
	}
}

func (w *lWorld) expectFatal(p *lPeer, resp []byte, ok bool, code, what string) {
	if !ok || errCode(resp) != code {
		w.violate("C15", "wrong-error", "%s: expected %s, got %q (ok=%v)", what, code, resp, ok)
	}
	synctest.Wait()
	if !p.cl.Closed() {
		w.violate("C15", "fatal-not-closed", "%s: connection still open after %s", what, code)
	}
	w.peerGone(p)
}

func (w *lWorld) peerGone(p *lPeer) {
	p.connected, p.identified = false, false
	for k, set := range w.keys {
		if set[p.idx] {
			delete(set, p.idx)
			if len(set) == 0 && (strings.HasSuffix(k.key, "#ephemeral") || strings.HasSuffix(k.sub, "#ephemeral")) {
				// an ephemeral registration nobody holds any more: the statement does not say whether it is still listed
				delete(w.keys, k)
				w.fuzzy[k] = true
			}
		}
	}
	for _, m := range w.tomb {
		delete(m, p.idx)
	}
}

func (w *lWorld) add(k lKey, idx int) {
	if w.keys[k] == nil {
		w.keys[k] = map[int]bool{}
	}
	if idx >= 0 {
		w.keys[k][idx] = true
	}
	delete(w.fuzzy, k)
}

// complete reads the answer of a producer command and applies it to the model.
func (w *lWorld) complete(p *lPeer, op Op) {
	resp, ok := w.readResp(p, 10*time.Second)
	t, ch := w.topicName(op.B), w.chanName(op.C)
	if !p.identified && op.Kind != "ping" {
		w.expectFatal(p, resp, ok, "E_INVALID", op.Kind+" before IDENTIFY")
		return
	}
	if !ok || string(resp) != "OK" {
		w.violate("C14", "command-failed", "producer %d: %s answered %q ok=%v", p.idx, w.line(op), resp, ok)
		return
	}
	switch op.Kind {
	case "ping":
		if p.identified {
			p.lastUpdate = time.Now()
		}
	case "register":
		if op.D != 0 {
			w.add(lKey{"channel", t, ch}, p.idx)
		}
		w.add(lKey{"topic", t, ""}, p.idx)
	case "unregister":
		if op.D != 0 {
			k := lKey{"channel", t, ch}
			if set, ex := w.keys[k]; ex {
				delete(set, p.idx)
				if len(set) == 0 && strings.HasSuffix(ch, "#ephemeral") {
					delete(w.keys, k)
				}
			}
		} else {
			for k, set := range w.keys {
				if k.cat == "channel" && k.key == t {
					delete(set, p.idx)
				}
			}
			k := lKey{"topic", t, ""}
			if set, ex := w.keys[k]; ex {
				delete(set, p.idx)
				if len(set) == 0 && strings.HasSuffix(t, "#ephemeral") {
					delete(w.keys, k)
				}
			}
			if m := w.tomb[k]; m != nil {
				delete(m, p.idx) // a tombstone lapses when the producer unregisters the topic
			}
		}
	}
}

func (w *lWorld) execHTTP(op Op) {
	t, ch := w.topicName(op.B), w.chanName(op.C)
	var path string
	switch op.S {
	case "create_topic":
		path = "/topic/create?topic=" + url.QueryEscape(t)
	case "delete_topic":
		path = "/topic/delete?topic=" + url.QueryEscape(t)
	case "create_channel":
		path = "/channel/create?topic=" + url.QueryEscape(t) + "&channel=" + url.QueryEscape(ch)
	case "delete_channel":
		path = "/channel/delete?topic=" + url.QueryEscape(t) + "&channel=" + url.QueryEscape(ch)
	case "tombstone":
		p := w.peers[int(uint64(op.A)%uint64(len(w.peers)))]
		node := fmt.Sprintf("%s:%d", p.bcast, p.httpPort)
		if op.D == 4 {
			node = "unknown.sim:1"
		}
		path = "/topic/tombstone?topic=" + url.QueryEscape(t) + "&node=" + url.QueryEscape(node)
	}
	resp := httpDo(w.rc, "POST", w.http, path, nil, nil, nil, 30*time.Second)
	w.rc.Logf("http %s -> %d %s err=%v", path, resp.Status, resp.Body, resp.Err)
	exp := 200
	if op.S == "delete_channel" {
		if _, ex := w.keys[lKey{"channel", t, ch}]; !ex {
			exp = 404
			if w.fuzzy[lKey{"channel", t, ch}] {
				exp = resp.Status
			}
		}
	}
	if resp.Err != nil || resp.Status != exp {
		w.violate("C14", "admin-status", "%s: status %d (err %v), model expected %d", path, resp.Status, resp.Err, exp)
		return
	}
	if resp.Status != 200 {
		return
	}
	switch op.S {
	case "create_topic":
		w.add(lKey{"topic", t, ""}, -1)
	case "delete_topic":
		for k := range w.keys {
			if (k.cat == "channel" || k.cat == "topic") && k.key == t {
				delete(w.keys, k)
				delete(w.fuzzy, k)
			}
		}
		delete(w.tomb, lKey{"topic", t, ""})
	case "create_channel":
		w.add(lKey{"channel", t, ch}, -1)
		w.add(lKey{"topic", t, ""}, -1)
	case "delete_channel":
		delete(w.keys, lKey{"channel", t, ch})
		delete(w.fuzzy, lKey{"channel", t, ch})
	case "tombstone":
		if op.D == 4 {
			return
		}
		p0 := w.peers[int(uint64(op.A)%uint64(len(w.peers)))]
		k := lKey{"topic", t, ""}
		for _, p := range w.peers {
			// the tombstone names an advertised address: it covers every connection that advertises it
			if p.bcast == p0.bcast && p.httpPort == p0.httpPort && w.keys[k][p.idx] {
				if w.tomb[k] == nil {
					w.tomb[k] = map[int]time.Time{}
				}
				w.tomb[k][p.idx] = time.Now()
			}
		}
	}
}

// ---------------------------------------------------------------- hostile operations (C15)

// noteHostileRegistrations: a hostile connection that identifies itself is a
// producer like any other; whatever it may have registered for itself may or
// may not be listed (its own business), so those keys become optional.
func (w *lWorld) noteHostileRegistrations(text string) {
	for _, m := range hostileRegRe.FindAllStringSubmatch(text, -1) {
		if w.hostileTouched == nil {
			w.hostileTouched = map[lKey]bool{}
		}
		// be generous: any prefix of the parameter that is a valid name
		for i := 1; i <= len(m[1]); i++ {
			if validName(m[1][:i]) {
				w.hostileTouched[lKey{"topic", m[1][:i], ""}] = true
				for j := 1; j <= len(m[2]); j++ {
					if validName(m[2][:j]) {
						w.hostileTouched[lKey{"channel", m[1][:i], m[2][:j]}] = true
					}
				}
			}
		}
	}
}

// noteHostileUnregistrations: an UNREGISTER by any identified connection
// removes an ephemeral topic or channel registration that has no producer
// left (it belongs to no connection then); such keys become optional.
func (w *lWorld) noteHostileUnregistrations(text string) {
	for _, m := range hostileUnregRe.FindAllStringSubmatch(text, -1) {
		k := lKey{"topic", m[1], ""}
		if m[2] != "" {
			k = lKey{"channel", m[1], m[2]}
		}
		name := m[1]
		if m[2] != "" {
			name = m[2]
		}
		if !strings.HasSuffix(name, "#ephemeral") {
			continue
		}
		if set, ok := w.keys[k]; ok && len(set) == 0 {
			delete(w.keys, k)
			w.fuzzy[k] = true
			w.rc.Probe("hostile_unregister_of_orphan_ephemeral")
		}
	}
}

var hostileUnregRe = regexp.MustCompile(`UNREGISTER +([^\s]+)(?: +([^\s]+))?`)

var hostileRegRe = regexp.MustCompile(`REGISTER +([^\s]+)(?: +([^\s]+))?`)

func (w *lWorld) execHostile(op Op) {
	rc := w.rc
	rc.Probe("hostile_ops")
	w.noteHostileRegistrations(string(op.Data))
	w.noteHostileRegistrations(op.S)
	w.noteHostileUnregistrations(string(op.Data))
	w.noteHostileUnregistrations(op.S)
	switch op.Kind {
	case "rawtcp":
		c, err := rc.Net.DialFrom(nil, w.tcp)
		if err != nil {
			w.violate("C15", "refused", "TCP connect refused: %v", err)
			return
		}
		c.SetLimitOut(0)
		c.Write(op.Data)
		synctest.Wait()
		switch op.A {
		case 0:
			c.Close()
		case 1:
			c.Reset()
		default:
			// leave it open for a while, then close
			time.Sleep(50 * time.Millisecond)
			c.Close()
		}
		synctest.Wait()
	case "spoof":
		var victim *lPeer
		for i := 0; i < len(w.peers); i++ {
			if p := w.peers[(int(op.A)+i)%len(w.peers)]; p != nil && p.connected && p.identified {
				victim = p
				break
			}
		}
		if victim == nil {
			return
		}
		cl, err := dialV2(rc, "spoof", w.tcp, "  V1")
		if err != nil {
			w.violate("C15", "refused", "TCP connect refused: %v", err)
			return
		}
		cl.RawMode = true
		cl.Start()
		hp := &lPeer{idx: 98, cl: cl, connected: true}
		va := victim.cl.Conn.LocalAddr().String()
		body := fmt.Sprintf(`{"broadcast_address":"spoof.sim","tcp_port":19,"http_port":20,"version":"1","hostname":"spoof","remote_address":%q,"id":%q,"RemoteAddress":%q}`, va, va, va)
		var b bytes.Buffer
		b.WriteString("IDENTIFY\n")
		b.Write(be32(int32(len(body))))
		b.WriteString(body)
		cl.Send(b.Bytes())
		w.readResp(hp, 5*time.Second)
		t := w.topicName(op.C)
		variant := op.B % 3
		if strings.HasSuffix(t, "#ephemeral") {
			// (an UNREGISTER by anybody removes an ephemeral topic that has no producer left:
			// that registration belongs to no connection; not exercised here)
			variant = 2
		}
		switch variant {
		case 0:
			cl.Send([]byte("UNREGISTER " + t + "\n"))
			w.readResp(hp, 5*time.Second)
		case 1:
			w.noteHostileRegistrations("REGISTER " + t)
			cl.Send([]byte("REGISTER " + t + "\n"))
			w.readResp(hp, 5*time.Second)
			cl.Send([]byte("UNREGISTER " + t + "\n"))
			w.readResp(hp, 5*time.Second)
		}
		cl.Close()
		synctest.Wait()
		rc.Probe("spoofed_identify")
	case "hostilecmd":
		cl, err := dialV2(rc, "hostile", w.tcp, "  V1")
		if err != nil {
			w.violate("C15", "refused", "TCP connect refused: %v", err)
			return
		}
		cl.RawMode = true
		cl.Start()
		hp := &lPeer{idx: 99, cl: cl, connected: true}
		if op.A == 1 {
			body := `{"broadcast_address":"hostile.sim","tcp_port":9,"http_port":10,"version":"1","hostname":"hostile"}`
			var b bytes.Buffer
			b.WriteString("IDENTIFY\n")
			b.Write(be32(int32(len(body))))
			b.WriteString(body)
			cl.Send(b.Bytes())
			if _, ok := w.readResp(hp, 5*time.Second); ok {
				hp.identified = true
			}
		}
		cl.Send([]byte(op.S + "\n"))
		resp, ok := w.readResp(hp, 5*time.Second)
		want := hostileExpect(op.S, hp.identified)
		if want != "" {
			got := ""
			if ok {
				got = errCode(resp)
			}
			if got != want {
				w.violate("C15", "wrong-error", "command %q (identified=%v): expected %s, got %q", op.S, hp.identified, want, resp)
			}
		}
		cl.Close()
		synctest.Wait()
	case "rawhttp":
		parts := strings.SplitN(op.S, " ", 2)
		resp := httpDo(rc, parts[0], w.http, parts[1], nil, nil, nil, 30*time.Second)
		rc.Logf("hostile http %s -> %d %q err=%v", op.S, resp.Status, trunc(resp.Body, 80), resp.Err)
		if resp.Err != nil {
			w.violate("C15", "http-no-answer", "%s: %v", op.S, resp.Err)
			return
		}
		if resp.Status >= 500 {
			w.violate("C15", "http-5xx", "%s answered %d %s", op.S, resp.Status, trunc(resp.Body, 120))
		}
		// hostile HTTP requests only ever name their own topic; creations are added to the model
		u, _ := url.Parse(parts[1])
		if u != nil && resp.Status == 200 && parts[0] == "POST" {
			q := u.Query()
			t, ch := q.Get("topic"), q.Get("channel")
			switch u.Path {
			case "/topic/create":
				w.add(lKey{"topic", t, ""}, -1)
			case "/channel/create":
				w.add(lKey{"channel", t, ch}, -1)
				w.add(lKey{"topic", t, ""}, -1)
			case "/topic/delete":
				for k := range w.keys {
					if (k.cat == "channel" || k.cat == "topic") && k.key == t {
						delete(w.keys, k)
					}
				}
				delete(w.tomb, lKey{"topic", t, ""})
			case "/channel/delete":
				delete(w.keys, lKey{"channel", t, ch})
			case "/topic/tombstone":
				// node names never match a bystander
			}
		}
	}
	// the daemon must still answer others
	r := httpDo(rc, "GET", w.http, "/ping", nil, nil, nil, 10*time.Second)
	if r.Err != nil || r.Status != 200 {
		w.violate("C15", "stopped-answering", "after hostile op %s: /ping -> %d %v", op.Kind, r.Status, r.Err)
	}
}

// hostileExpect: the documented answer to a malformed command line ("" = not specified).
func hostileExpect(line string, identified bool) string {
	f := strings.Split(strings.TrimSpace(line), " ")
	switch f[0] {
	case "PING":
		return ""
	case "IDENTIFY":
		return "" // needs a body
	case "REGISTER", "UNREGISTER":
		if !identified {
			return "E_INVALID"
		}
		if len(f) < 2 {
			return "E_INVALID"
		}
		if !validName(f[1]) {
			return "E_BAD_TOPIC"
		}
		if len(f) >= 3 && f[2] != "" && !validName(f[2]) {
			return "E_BAD_CHANNEL"
		}
		return ""
	}
	return "E_INVALID"
}

func validName(s string) bool {
	if len(s) < 1 || len(s) > 64 {
		return false
	}
	base := strings.TrimSuffix(s, "#ephemeral")
	if base == "" {
		return false
	}
	for i := 0; i < len(base); i++ {
		c := base[i]
		if !(c == '.' || c == '_' || c == '-' || c >= '0' && c <= '9' || c >= 'a' && c <= 'z' || c >= 'A' && c <= 'Z') {
			return false
		}
	}
	return true
}

// ---------------------------------------------------------------- reads vs. model

func (w *lWorld) active(idx int) bool {
	p := w.peers[idx]
	return p.connected && p.identified && time.Since(p.lastUpdate) <= ms(w.cfg.InactiveMs)
}

func (w *lWorld) tombstoned(topic string, idx int) bool {
	at, ok := w.tomb[lKey{"topic", topic, ""}][idx]
	return ok && time.Since(at) < ms(w.cfg.TombstoneMs)
}

type lProducer struct {
	BroadcastAddress string   `json:"broadcast_address"`
	Hostname         string   `json:"hostname"`
	TCPPort          int      `json:"tcp_port"`
	HTTPPort         int      `json:"http_port"`
	Topics           []string `json:"topics"`
	Tombstones       []bool   `json:"tombstones"`
}

func setOf(xs []string) string {
	s := append([]string(nil), xs...)
	sort.Strings(s)
	return strings.Join(s, ",")
}

// lObs is what the read endpoints answered at one quiescent point.
type lObs struct {
	topicsSt int
	topicsOK bool
	topics   []string
	chSt     map[string]int
	chOK     map[string]bool
	chans    map[string][]string
	lkSt     map[string]int
	lkOK     map[string]bool
	lkChans  map[string][]string
	lkProd   map[string][]lProducer
	nodesSt  int
	nodesOK  bool
	nodes    []lProducer
}

// fetchObs reads /topics, /channels, /lookup (for every topic of the universe) and /nodes.
// Transport or JSON failures are violations at once (they do not depend on the model).
func (w *lWorld) fetchObs(prop string) *lObs {
	rc := w.rc
	rc.Probe("reads_checked")
	get := func(path string, v interface{}) (int, bool) {
		resp := httpDo(rc, "GET", w.http, path, nil, nil, nil, 30*time.Second)
		if resp.Err != nil {
			w.violate(prop, "read-failed", "GET %s: %v", path, resp.Err)
			return 0, false
		}
		if resp.Status == 200 {
			if err := json.Unmarshal(resp.Body, v); err != nil {
				w.violate(prop, "read-bad-json", "GET %s: %v (%q)", path, err, trunc(resp.Body, 100))
				return resp.Status, false
			}
		}
		return resp.Status, true
	}
	o := &lObs{chSt: map[string]int{}, chOK: map[string]bool{}, chans: map[string][]string{}, lkSt: map[string]int{}, lkOK: map[string]bool{},
		lkChans: map[string][]string{}, lkProd: map[string][]lProducer{}}
	var tr struct {
		Topics []string `json:"topics"`
	}
	o.topicsSt, o.topicsOK = get("/topics", &tr)
	o.topics = tr.Topics
	for _, t := range w.cfg.Topics {
		var cr struct {
			Channels []string `json:"channels"`
		}
		o.chSt[t], o.chOK[t] = get("/channels?topic="+url.QueryEscape(t), &cr)
		o.chans[t] = cr.Channels
		var lr struct {
			Channels  []string    `json:"channels"`
			Producers []lProducer `json:"producers"`
		}
		o.lkSt[t], o.lkOK[t] = get("/lookup?topic="+url.QueryEscape(t), &lr)
		o.lkChans[t], o.lkProd[t] = lr.Channels, lr.Producers
	}
	var nr struct {
		Producers []lProducer `json:"producers"`
	}
	o.nodesSt, o.nodesOK = get("/nodes", &nr)
	o.nodes = nr.Producers
	return o
}

// lState is the registry model: registration keys with their producer sets,
// tombstone marks, and the ephemeral keys whose presence is not specified.
type lState struct {
	keys  map[lKey]map[int]bool
	tomb  map[lKey]map[int]time.Time
	fuzzy map[lKey]bool
	orph  map[lKey]bool // inside a concurrent burst: ephemeral registrations a disconnect has emptied
}

func (w *lWorld) cur() *lState { return &lState{keys: w.keys, tomb: w.tomb, fuzzy: w.fuzzy} }

func (w *lWorld) tombstonedIn(st *lState, topic string, idx int) bool {
	at, ok := st.tomb[lKey{"topic", topic, ""}][idx]
	return ok && time.Since(at) < ms(w.cfg.TombstoneMs)
}

// compare returns "" when the observation equals what the state predicts, else (class, detail) of the first difference.
func (w *lWorld) compare(o *lObs, st *lState) (string, string) {
	if o.topicsOK {
		var want, opt []string
		for k := range st.keys {
			if k.cat == "topic" {
				want = append(want, k.key)
			}
		}
		for k := range st.fuzzy {
			if k.cat == "topic" {
				opt = append(opt, k.key)
			}
		}
		if o.topicsSt != 200 || !setEqualModulo(o.topics, want, opt) {
			return "topics-mismatch", fmt.Sprintf("/topics -> %d [%s], model [%s] (optional [%s])", o.topicsSt, setOf(o.topics), setOf(want), setOf(opt))
		}
	}
	for _, t := range w.cfg.Topics {
		var want, opt []string
		for k := range st.keys {
			if k.cat == "channel" && k.key == t {
				want = append(want, k.sub)
			}
		}
		for k := range st.fuzzy {
			if k.cat == "channel" && k.key == t {
				opt = append(opt, k.sub)
			}
		}
		if o.chOK[t] {
			if o.chSt[t] != 200 || !setEqualModulo(o.chans[t], want, opt) {
				return "channels-mismatch", fmt.Sprintf("/channels?topic=%s -> %d [%s], model [%s] (optional [%s])", t, o.chSt[t], setOf(o.chans[t]), setOf(want), setOf(opt))
			}
		}
		if !o.lkOK[t] {
			continue
		}
		st0 := o.lkSt[t]
		tk := lKey{"topic", t, ""}
		_, exists := st.keys[tk]
		if !exists {
			if st0 != 404 && !(st.fuzzy[tk] && st0 == 200) {
				return "lookup-unknown-topic", fmt.Sprintf("/lookup?topic=%s -> %d, model: topic unknown", t, st0)
			}
			if st0 != 200 {
				continue
			}
		} else if st0 != 200 {
			return "lookup-known-topic", fmt.Sprintf("/lookup?topic=%s -> %d, model: topic known", t, st0)
		}
		var wantP []string
		for idx := range st.keys[tk] {
			if w.active(idx) && !w.tombstonedIn(st, t, idx) {
				wantP = append(wantP, w.peers[idx].bcast)
			}
		}
		var gotP []string
		for _, p := range o.lkProd[t] {
			if !strings.HasPrefix(p.BroadcastAddress, "nsqd") {
				continue // a hostile connection that identified itself
			}
			gotP = append(gotP, p.BroadcastAddress)
		}
		if setOf(gotP) != setOf(wantP) {
			return "lookup-producers", fmt.Sprintf("/lookup?topic=%s producers [%s], model [%s]", t, setOf(gotP), setOf(wantP))
		}
		if !setEqualModulo(o.lkChans[t], want, opt) {
			return "lookup-channels", fmt.Sprintf("/lookup?topic=%s channels [%s], model [%s]", t, setOf(o.lkChans[t]), setOf(want))
		}
	}
	if o.nodesOK {
		var want, got []string // multisets: two connections may advertise the same address
		for idx, p := range w.peers {
			if !w.active(idx) {
				continue
			}
			var ts []string
			for k, set := range st.keys {
				if k.cat == "topic" && set[idx] {
					ts = append(ts, fmt.Sprintf("%s=%v", k.key, w.tombstonedIn(st, k.key, idx)))
				}
			}
			sort.Strings(ts)
			want = append(want, p.bcast+":["+strings.Join(ts, ",")+"]")
		}
		for _, n := range o.nodes {
			if !strings.HasPrefix(n.BroadcastAddress, "nsqd") {
				continue // a hostile connection that identified itself successfully is a producer too
			}
			if len(n.Topics) != len(n.Tombstones) {
				return "nodes-shape", fmt.Sprintf("/nodes: %s has %d topics and %d tombstone flags", n.BroadcastAddress, len(n.Topics), len(n.Tombstones))
			}
			var ts []string
			for i, t := range n.Topics {
				ts = append(ts, fmt.Sprintf("%s=%v", t, n.Tombstones[i]))
			}
			sort.Strings(ts)
			got = append(got, n.BroadcastAddress+":["+strings.Join(ts, ",")+"]")
		}
		sort.Strings(got)
		sort.Strings(want)
		if o.nodesSt != 200 || fmt.Sprint(got) != fmt.Sprint(want) {
			return "nodes-mismatch", fmt.Sprintf("/nodes -> %d %v, model %v", o.nodesSt, got, want)
		}
	}
	return "", ""
}

func (w *lWorld) checkReads() {
	for k := range w.hostileTouched {
		if _, ex := w.keys[k]; !ex {
			w.fuzzy[k] = true
		}
	}
	prop := "C14"
	if w.cfg.Hostile {
		prop = "C15" // here the model only contains the bystanders: their registrations must be intact
	}
	o := w.fetchObs(prop)
	if w.rc.Failed() {
		return
	}
	if class, detail := w.compare(o, w.cur()); class != "" {
		w.violate(prop, class, "%s", detail)
	}
}

// setEqualModulo: got == want, where members of opt may or may not be present.
func setEqualModulo(got, want, opt []string) bool {
	g := map[string]bool{}
	for _, x := range got {
		g[x] = true
	}
	o := map[string]bool{}
	for _, x := range opt {
		o[x] = true
	}
	wm := map[string]bool{}
	for _, x := range want {
		wm[x] = true
		if !g[x] {
			return false
		}
	}
	for x := range g {
		if !wm[x] && !o[x] {
			return false
		}
	}
	return true
}

func (w *lWorld) modelString() string {
	var parts []string
	for k, set := range w.keys {
		var ids []int
		for i := range set {
			ids = append(ids, i)
		}
		sort.Ints(ids)
		parts = append(parts, fmt.Sprintf("%s:%s:%s=%v", k.cat, k.key, k.sub, ids))
	}
	sort.Strings(parts)
	return strings.Join(parts, ";")
}
