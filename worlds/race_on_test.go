//go:build race

package zzverif

import (
	"fmt"
	"os"
	"regexp"
	"sort"
	"strings"
)

// Race stage: the same worlds built with the Go race detector. The detector
// works on happens-before, not on actual simultaneity, so it sees unsynchronised
// accesses even though the simulation runs on one P. Only races whose two
// accesses both belong to nsq code (not to the harness, whose state is
// deliberately unsynchronised on one P) are reported.
const raceBuild = true

var raceOff int64

var raceLogRe = regexp.MustCompile(`log_path=(\S+)`)
var raceAccRe = regexp.MustCompile(`(?m)^(Read|Write|Previous read|Previous write|Atomic read|Atomic write|Previous atomic read|Previous atomic write) at 0x[0-9a-f]+ by `)
var raceFrameRe = regexp.MustCompile(`(?m)^  (\S+)\(\)\n\s+(\S+):(\d+)`)

func collectRaces() []string {
	m := raceLogRe.FindStringSubmatch(os.Getenv("GORACE"))
	if m == nil {
		return nil
	}
	path := fmt.Sprintf("%s.%d", m[1], os.Getpid())
	b, err := os.ReadFile(path)
	if err != nil || int64(len(b)) <= raceOff {
		return nil
	}
	txt := string(b[raceOff:])
	raceOff = int64(len(b))
	seen := map[string]bool{}
	var out []string
	for _, rep := range strings.Split(txt, "==================") {
		if !strings.Contains(rep, "DATA RACE") {
			continue
		}
		idx := raceAccRe.FindAllStringIndex(rep, -1)
		if len(idx) < 2 {
			continue
		}
		end := strings.Index(rep, "\nGoroutine ")
		if end < 0 {
			end = len(rep)
		}
		blocks := []string{rep[idx[0][0]:idx[1][0]], rep[idx[1][0]:end]}
		var owners []string
		ok := true
		for _, blk := range blocks {
			owner := ""
			for _, f := range raceFrameRe.FindAllStringSubmatch(blk, -1) {
				fn := f[1]
				if strings.Contains(fn, "zzverif") || strings.HasPrefix(fn, "verifsim/") {
					owner = "harness"
					break
				}
				if strings.HasPrefix(fn, "github.com/nsqio/") {
					file := f[2]
					if i := strings.LastIndex(file, "/"); i >= 0 {
						file = file[i+1:]
					}
					owner = fn + " " + file + ":" + f[3]
					break
				}
			}
			if owner == "" || owner == "harness" {
				ok = false
				break
			}
			owners = append(owners, owner)
		}
		if !ok {
			continue
		}
		sort.Strings(owners)
		sig := owners[0] + " <-> " + owners[1]
		if !seen[sig] {
			seen[sig] = true
			out = append(out, sig)
		}
	}
	sort.Strings(out)
	return out
}
