package zzverif

import (
	"verifsim/simos"
	"syscall"
	"path/filepath"
	"regexp"
	"verifsim/simclock"
	"encoding/json"
	"fmt"
	"sort"
	"time"

	"verifsim/simnet"
	"verifsim/simrt"
)

func init() { registerWorld("queue", queueWorld) }

// a topic's disk queue data file (a channel's has "topic:channel" in its name)
var topicQueueFileRe = regexp.MustCompile(`^[^:]+\.diskqueue\.[0-9]+\.dat$`)

// enforced oracles per property check
var qEnforce = map[string][]string{
	"C01": {"C01"},
	"C02": {"C02"},
	"C03": {"C03"},
	"C04": {"C04"},
	"C05": {"C05"},
	"C07": {"C07"},
	"C08": {"C08"},
	"C12": {"C12"},
	"C13": {"C13"},
	"ALL": {"C01", "C02", "C03", "C04", "C05", "C07", "C08", "C12", "C13"},
}

type qWeights struct {
	pub, sub, rdy, fin, req, touch, stale, cls, closeC, adv, stats           int
	createCh, pause, unpause, emptyCh, deleteCh, emptyT, deleteT, restart int
	burst                                                                 int // chance (of 100) that an op joins a burst
}

func genQCfg(rc *RunCtx) QCfg {
	r := rc.Rng
	c := QCfg{Profile: rc.Prop}
	c.MemQueueSize = int64(r.Pick(0, 1, 2, 5, 50, 10000, 10000))
	c.MaxBytesPerFile = int64(r.Pick(300, 1000, 4096, 1<<20))
	c.SyncEvery = int64(r.Pick(1, 3, 2500))
	c.MsgTimeoutMs = int64(r.Pick(1000, 2000, 5000, 30000))
	c.MaxMsgTimeoutMs = c.MsgTimeoutMs * int64(r.Pick(1, 2, 4))
	if c.MaxMsgTimeoutMs > 60000 {
		c.MaxMsgTimeoutMs = 60000
	}
	c.MaxReqTimeoutMs = int64(r.Pick(1000, 10000, 60000))
	c.ScanIntervalMs = int64(r.Pick(50, 100, 500))
	c.ScanRefreshMs = int64(r.Pick(500, 5000))
	c.ScanSelCount = r.Pick(1, 2, 20)
	c.ScanWorkerMax = r.Pick(1, 4)
	c.MaxRdy = int64(r.Pick(1, 2, 5, 100, 2500))
	c.MaxMsgSize = int64(r.Pick(64, 1024, 65536))
	c.MaxBodySize = c.MaxMsgSize * int64(r.Pick(8, 64))
	c.OBTMs = int64(r.Pick(25, 250))
	c.ClientTimeoutMs = int64(r.Pick(10000, 60000))
	c.NodeID = int64(r.Intn(1024))
	nt := r.Range(1, 3)
	pool := []string{"t0", "t1", "t2#ephemeral"}
	c.Topics = pool[:nt]
	if nt == 3 && r.Chance(1, 2) {
		c.Topics = pool[:2]
	}
	c.Channels = []string{"c0", "c1", "c2#ephemeral"}[:r.Range(1, 3)]
	c.YieldProb = uint32(r.Pick(0, 1024, 4096, 16384))
	if r.Chance(1, 3) {
		c.YieldPrefixes = [][]string{{"nsqd.Channel."}, {"nsqd.protocolV2."}, {"nsqd.Topic.", "nsqd.NSQD."}, {"nsqd.Channel.", "nsqd.clientV2."}}[r.Intn(4)]
	}
	c.ShortReads = r.Pick(0, 0, 2, 8)
	c.Topology = r.Chance(1, 6)
	switch rc.Prop {
	case "C04":
		// timing checks want the scan to visit every channel and memory-held messages
		c.ScanSelCount = 20
		if sr := NewPRNG(rc.Seed ^ 0x5e1c); sr.Chance(1, 4) {
			// ... but not always: with fewer channels drawn per tick than there are, a channel's turn comes
			// at random, and the lateness bounds widen accordingly (lateSlack)
			c.ScanSelCount = sr.Pick(1, 2)
		}
		c.MemQueueSize = 10000
	case "C07":
		c.TLS = r.Chance(1, 2)
	case "C03":
		c.Restarts = r.Pick(0, 1, 2)
	case "C13":
		// separate fault configuration: writes to a topic's disk queue fail now and then
		// (the publisher is told; nothing may be counted for a refused publish)
		c.TopicDiskFaults = r.Pick(0, 0, 0, 5, 20)
		if c.TopicDiskFaults > 0 {
			c.MemQueueSize = int64(r.Pick(0, 1))
		}
	case "C05":
		c.Restarts = r.Range(1, 3)
	case "C12":
		// room for multi-publishes that exhaust the 4096 ids of one generator tick
		c.MaxBodySize = 1 << 20
		c.MaxRdy = int64(r.Pick(100, 2500))
		c.ClockSteps = true
		c.IDClockDrift = r.Pick(0, 3, 16, 200)
	case "C08":
	}
	c.E2E = NewPRNG(rc.Seed^0xe2e).Chance(1, 5) // own stream
	c.UnixSocket = NewPRNG(rc.Seed^0x50c7).Chance(1, 8)
	if dl := NewPRNG(rc.Seed ^ 0xdead100c); (rc.Prop == "C05" || rc.Prop == "C01" || rc.Prop == "C08") && dl.Chance(1, 4) {
		c.DeadLookupd = dl.Pick(1, 1, 2)
	}
	if tr := NewPRNG(rc.Seed ^ 0x7715); (rc.Prop == "C04" || rc.Prop == "C02" || rc.Prop == "C03") && tr.Chance(1, 4) {
		c.TLS = true // consumers may upgrade to TLS (the writer stack is rebuilt on the upgrade: buffering must stay as negotiated)
	}
	// names that only differ in where a separator stands: topic "t0" with channel "c0", and a topic called
	// "t0.c0" / "t0_c0" / "t0-c0" (every character a name may contain besides letters and digits) - two
	// queues that must not share anything, whatever a file or registry key is derived from their names
	if nr := NewPRNG(rc.Seed ^ 0x6a3e); len(c.Topics) >= 2 && nr.Chance(1, 5) {
		c.Topics = append([]string(nil), c.Topics...)
		c.Topics[1] = "t0" + nr.PickS(".", "_", "-", ".") + "c0"
	}
	// random steering (own stream): the first goroutine to arrive (for the n-th time) at a synchronisation
	// point of function F is held back until some goroutine has passed one of function G - a whole other
	// operation fits into the window, and the window closes as soon as that operation has happened
	if sr := NewPRNG(rc.Seed ^ 0x57ee7); len(c.Steer) == 0 && sr.Chance(1, 3) {
		fn := func() string { return steerFuncs[sr.Intn(len(steerFuncs))] + "*" }
		c.Steer = []SteerRule{{Hold: fn(), Until: fn(), MaxSpin: sr.Pick(300, 3000, 20000), Nth: sr.Range(1, 6)}}
	}
	// long delays of one goroutine per step (own stream: the rest of the configuration of a seed is unchanged)
	lr := NewPRNG(rc.Seed ^ 0x10c6de1a)
	c.LongProb = uint32(lr.Pick(0, 0, 40, 160, 600))
	c.LongSpin = lr.Pick(40, 300, 2500)
	return c
}

// steerFuncs: the functions between whose synchronisation points the windows of the queue properties lie
// (in-flight bookkeeping, per-client counters, delivery and topic pumps, registry changes, shutdown). A name
// that no longer exists in the tree under test simply never matches.
var steerFuncs = []string{
	"nsqd.clientV2.FinishedMessage", "nsqd.clientV2.RequeuedMessage", "nsqd.clientV2.TimedOutMessage", "nsqd.clientV2.SendingMessage",
	"nsqd.clientV2.Empty", "nsqd.clientV2.SetReadyCount", "nsqd.clientV2.IsReadyForMessages", "nsqd.clientV2.tryUpdateReadyState",
	"nsqd.Channel.FinishMessage", "nsqd.Channel.RequeueMessage", "nsqd.Channel.TouchMessage", "nsqd.Channel.StartInFlightTimeout",
	"nsqd.Channel.StartDeferredTimeout", "nsqd.Channel.popInFlightMessage", "nsqd.Channel.removeFromInFlightPQ", "nsqd.Channel.pushInFlight",
	"nsqd.Channel.put", "nsqd.Channel.PutMessage", "nsqd.Channel.PutMessageDeferred", "nsqd.Channel.Empty", "nsqd.Channel.initPQ",
	"nsqd.Channel.processInFlightQueue", "nsqd.Channel.processDeferredQueue", "nsqd.Channel.exit", "nsqd.Channel.flush",
	"nsqd.Channel.AddClient", "nsqd.Channel.RemoveClient", "nsqd.Channel.Pause", "nsqd.Channel.doPause",
	"nsqd.protocolV2.messagePump", "nsqd.protocolV2.FIN", "nsqd.protocolV2.REQ", "nsqd.protocolV2.SUB", "nsqd.protocolV2.IOLoop", "nsqd.protocolV2.Send",
	"nsqd.Topic.messagePump", "nsqd.Topic.PutMessage", "nsqd.Topic.PutMessages", "nsqd.Topic.put", "nsqd.Topic.exit", "nsqd.Topic.flush", "nsqd.Topic.Empty",
	"nsqd.Topic.GetChannel", "nsqd.Topic.getOrCreateChannel", "nsqd.Topic.DeleteExistingChannel", "nsqd.Topic.doPause", "nsqd.Topic.GenerateID",
	"nsqd.NSQD.GetTopic", "nsqd.NSQD.DeleteExistingTopic", "nsqd.NSQD.Exit", "nsqd.NSQD.PersistMetadata", "nsqd.NSQD.Notify", "nsqd.NSQD.queueScanWorker",
	"nsqd.tcpServer.Handle", "nsqd.tcpServer.Close", "nsqd.clientV2.decrInFlightCount",
}

func qWeightsFor(prop string, r *PRNG) qWeights {
	w := qWeights{pub: 30, sub: 8, rdy: 8, fin: 20, req: 8, touch: 4, stale: 2, cls: 1, closeC: 3, adv: 16, stats: 2, createCh: 2, pause: 2, unpause: 3, burst: 25}
	switch prop {
	case "C01":
		w.emptyCh, w.deleteCh = 0, 0
	case "C02":
		w.stale, w.req, w.touch, w.adv, w.sub = 10, 12, 10, 24, 10
		w.pause, w.unpause = 0, 0
	case "C03":
		w.rdy, w.cls, w.pause, w.unpause, w.sub = 20, 4, 6, 8, 10
		w.restart = 1 // a paused topic/channel stays paused across a graceful restart
	case "C04":
		w.req, w.touch, w.adv, w.burst = 16, 12, 30, 5
		// (a paused topic stops feeding its channels; what its channels hold keeps timing out and coming back)
		w.pause, w.unpause, w.closeC = 1, 2, 1
	case "C05":
		w.restart = 3
	case "C07":
		w.pub, w.closeC = 40, 2
	case "C08":
		w.emptyCh, w.deleteCh, w.emptyT, w.deleteT, w.createCh, w.burst = 8, 6, 3, 3, 5, 50
	case "C12":
		w.pub, w.burst = 60, 60
	case "C13":
		w.stats, w.emptyCh, w.adv = 8, 3, 20
	case "ALL":
		w.emptyCh, w.deleteCh, w.emptyT, w.deleteT, w.restart = 3, 2, 1, 1, 0
	}
	// swarm: knock out a few kinds per run
	if r.Chance(1, 4) {
		w.req = 0
	}
	if r.Chance(1, 4) {
		w.touch = 0
	}
	if r.Chance(1, 4) {
		w.closeC = 0
	}
	if r.Chance(1, 5) {
		w.burst = 0
	}
	return w
}

func genQOps(rc *RunCtx, c QCfg) []Op {
	r := rc.Rng
	w := qWeightsFor(rc.Prop, r)
	n := r.Range(20, 120)
	if rc.Tier == "thorough" && r.Chance(1, 4) {
		n = r.Range(120, 300)
	}
	var ops []Op
	add := func(o Op) { o.Uid = len(ops); ops = append(ops, o) }
	// a run starts with a few consumers so that something flows
	for i := 0; i < r.Range(1, 4); i++ {
		add(genSub(r, c, rc.Prop))
	}
	advChoices := func() int64 {
		ch := []int64{1, c.ScanIntervalMs, c.OBTMs, c.OBTMs + 1, c.MsgTimeoutMs - 1, c.MsgTimeoutMs, c.MsgTimeoutMs + c.ScanIntervalMs,
			c.MsgTimeoutMs / 2, c.MaxMsgTimeoutMs, c.MaxMsgTimeoutMs + c.ScanIntervalMs, 2 * c.ScanIntervalMs, 10, 100, c.ClientTimeoutMs / 2, 1000}
		return ch[r.Intn(len(ch))]
	}
	reqDelays := func() int64 {
		ch := []int64{0, 0, 1, 50, c.ScanIntervalMs, 1000, c.MaxReqTimeoutMs - 1, c.MaxReqTimeoutMs, c.MaxReqTimeoutMs + 1, 10 * c.MaxReqTimeoutMs}
		return ch[r.Intn(len(ch))]
	}
	weights := []int{w.pub, w.sub, w.rdy, w.fin, w.req, w.touch, w.stale, w.cls, w.closeC, w.adv, w.stats,
		w.createCh, w.pause, w.unpause, w.emptyCh, w.deleteCh, w.emptyT, w.deleteT, w.restart}
	restarts := 0
	// C04: a stuck consumer. Messages published one scan interval apart to a consumer that never answers time
	// out one per scan pass, for ever (each is handed out again and times out again); a deferred publish on
	// the same channel must still come out on time. (Several other channels exist, so that the one busy
	// channel does not make the scan loop go round again at once.)
	trickleAt := -1
	tr := NewPRNG(rc.Seed ^ 0x7c1c)
	if rc.Prop == "C04" && c.MaxRdy >= 50 && c.ScanIntervalMs > 0 && tr.Chance(1, 3) {
		trickleAt = tr.Range(2, n/2)
	}
	for len(ops) < n {
		if len(ops) >= trickleAt && trickleAt >= 0 {
			trickleAt = -1
			t, ch := int64(tr.Intn(2)), int64(tr.Intn(2))
			for k := int64(0); k < 4; k++ {
				add(Op{Kind: "admin", S: "create_channel", A: (t + 1 + k/2) % 8, B: k})
			}
			add(Op{Kind: "sub", A: t, B: ch, C: c.MaxRdy, D: 1})
			k := c.MsgTimeoutMs/c.ScanIntervalMs + 3
			if k > 24 {
				k = 24
			}
			for i := int64(0); i < k; i++ {
				add(Op{Kind: "pub", A: t, C: 0})
				add(Op{Kind: "adv", A: c.ScanIntervalMs})
			}
			add(Op{Kind: "pub", A: t, C: 2, D: 3 * c.ScanIntervalMs})
			add(Op{Kind: "adv", A: 3*c.MsgTimeoutMs + 6000})
			continue
		}
		var o Op
		switch r.Weighted(weights) {
		case 0:
			o = Op{Kind: "pub", A: int64(r.Pick(0, 1, 2, 0, 1, 2, 3, 4, 5)) | int64(genSizeClass(r, rc.Prop))<<8, B: int64(r.Intn(8))}
			k := r.Weighted([]int{30, 12, 8, 14, 6, 6, 6})
			o.C = int64(k)
			if k == 3 && (rc.Prop == "C07" || rc.Prop == "C01" || rc.Prop == "ALL") && r.Chance(1, 6) {
				o.S = "abort"
			}
			switch k {
			case 1, 4, 5:
				o.D = int64(r.Range(1, 6))
				if rc.Prop == "C12" && r.Chance(1, 5) {
					// more ids than one generator tick holds, tiny bodies
					o.D = int64(r.Pick(1500, 2100, 4096, 4097, 5000))
					o.A &= 0xff
				}
			case 2, 6:
				o.D = []int64{0, 1, 100, c.ScanIntervalMs, 1500, c.MaxReqTimeoutMs - 1, c.MaxReqTimeoutMs, c.MaxReqTimeoutMs + 1}[r.Intn(8)]
				if rc.Prop == "C04" && r.Chance(1, 3) {
					o.S2 = genSpelling(r, c)
				}
			}
		case 1:
			o = genSub(r, c, rc.Prop)
		case 2:
			o = Op{Kind: "rdy", A: int64(r.Intn(16)), B: []int64{0, 1, 1, 2, 3, c.MaxRdy, c.MaxRdy, c.MaxRdy / 2}[r.Intn(8)]}
			if rc.Prop == "C03" && r.Chance(1, 12) {
				o.B = []int64{c.MaxRdy + 1, -1, 1 << 40}[r.Intn(3)]
			}
		case 3:
			o = Op{Kind: "fin", A: int64(r.Intn(16)), B: int64(r.Intn(16))}
			if r.Chance(1, 8) {
				o.S = "atdeadline"
			}
		case 4:
			o = Op{Kind: "req", A: int64(r.Intn(16)), B: int64(r.Intn(16)), C: reqDelays()}
			if r.Chance(1, 6) {
				o.S = "atdeadline"
			}
			if rc.Prop == "C04" && r.Chance(1, 4) {
				o.S2 = genSpelling(r, c)
			}
		case 5:
			o = Op{Kind: "touch", A: int64(r.Intn(16)), B: int64(r.Intn(16))}
		case 6:
			o = Op{Kind: "stale", A: int64(r.Intn(16)), B: int64(r.Intn(64)), C: int64(r.Intn(3))}
		case 7:
			o = Op{Kind: "cls", A: int64(r.Intn(16))}
		case 8:
			o = Op{Kind: "close", A: int64(r.Intn(16)), B: int64(r.Intn(2))}
		case 9:
			o = Op{Kind: "adv", A: advChoices()}
		case 10:
			o = Op{Kind: "stats"}
		case 11:
			o = Op{Kind: "admin", S: r.PickS("create_channel", "create_channel", "create_topic"), A: int64(r.Intn(8)), B: int64(r.Intn(8))}
		case 12:
			o = Op{Kind: "admin", S: r.PickS("pause_channel", "pause_topic"), A: int64(r.Intn(8)), B: int64(r.Intn(8))}
		case 13:
			o = Op{Kind: "admin", S: r.PickS("unpause_channel", "unpause_topic"), A: int64(r.Intn(8)), B: int64(r.Intn(8))}
		case 14:
			o = Op{Kind: "admin", S: "empty_channel", A: int64(r.Intn(8)), B: int64(r.Intn(8))}
		case 15:
			o = Op{Kind: "admin", S: "delete_channel", A: int64(r.Intn(8)), B: int64(r.Intn(8))}
		case 16:
			o = Op{Kind: "admin", S: "empty_topic", A: int64(r.Intn(8))}
		case 17:
			o = Op{Kind: "admin", S: "delete_topic", A: int64(r.Intn(8))}
		case 18:
			if restarts >= c.Restarts {
				continue
			}
			restarts++
			o = Op{Kind: "restart", A: int64(r.Intn(5)), B: int64(r.Intn(8)), C: int64(r.Range(1, 4))}
		}
		if rc.Prop == "C12" && r.Chance(1, 12) {
			// step the id generator's clock (the daemon's other timers are unaffected)
			add(Op{Kind: "clock", A: []int64{-3, -50, -1500, -10000, 0, 0, 1000}[r.Intn(7)]})
		}
		if o.Kind != "adv" && o.Kind != "stats" && o.Kind != "restart" && o.Kind != "sub" && o.Kind != "cls" && r.Chance(w.burst, 100) {
			o.Burst = true
		}
		if rc.Prop == "C04" && r.Chance(1, 15) {
			add(Op{Kind: "adv", A: -1})
		}
		if (rc.Prop == "C01" || rc.Prop == "ALL" || rc.Prop == "C08") && r.Chance(1, 25) {
			add(Op{Kind: "createpub", A: int64(r.Intn(8)), B: int64(r.Intn(8)), C: int64(r.Intn(4))})
		}
		if (rc.Prop == "C03" || rc.Prop == "C13" || rc.Prop == "C08" || rc.Prop == "C04" || rc.Prop == "C02" || rc.Prop == "ALL") && r.Chance(1, 30) {
			add(Op{Kind: "ackempty", A: int64(r.Intn(16)), B: int64(r.Intn(4)), C: int64(r.Intn(8))})
		}
		if o.Kind == "admin" && (o.S == "delete_channel" || o.S == "delete_topic") && (rc.Prop == "C08" || rc.Prop == "ALL") && r.Chance(1, 3) {
			// the same object is asked for again while its deletion is still running
			o.Burst = true
			add(o)
			if r.Chance(1, 2) {
				o = Op{Kind: "admin", S: "create_channel", A: o.A, B: o.B}
			} else {
				o = Op{Kind: "pub", A: 0, B: o.A}
			}
			o.Burst = r.Chance(1, 2)
		}
		add(o)
		if o.Kind == "sub" && (rc.Prop == "C08" || rc.Prop == "C01" || rc.Prop == "ALL") && r.Chance(1, 5) {
			// a later subscribe to the same topic while everybody else on it leaves
			add(Op{Kind: "sub", A: o.A, B: int64(r.Intn(8)), C: o.C, D: genSub(r, c, rc.Prop).D, S: "raceclose"})
		} else if o.Kind == "sub" && (rc.Prop == "C08" || rc.Prop == "ALL") && r.Chance(1, 4) {
			// the same on an ephemeral topic, where the last consumer leaving deletes the topic
			for i, tn := range c.Topics {
				if len(tn) > 10 && tn[len(tn)-10:] == "#ephemeral" {
					ch := int64(r.Intn(8))
					add(Op{Kind: "sub", A: int64(i), B: ch, C: 1, D: genSub(r, c, rc.Prop).D})
					add(Op{Kind: "sub", A: int64(i), B: int64(r.Pick(int(ch), r.Intn(8))), C: 1, D: genSub(r, c, rc.Prop).D, S: "raceclose"})
					add(Op{Kind: "pub", A: 0, B: int64(i)})
					add(Op{Kind: "stats"})
				}
			}
		}
		if o.Kind == "sub" && r.Chance(1, 4) {
			// a command on a consumer connection at the instant its output
			// buffer timer fires, with messages sitting in the buffer
			sel := int64(r.Range(3, 9))
			add(Op{Kind: "adv", A: 0, B: sel})
			for k := r.Range(1, 3); k > 0; k-- {
				add(Op{Kind: "pub", A: sel, S: "cotopic"})
			}
			add(Op{Kind: "pub", A: sel, S: "tick", B: int64(r.Intn(8)), Burst: r.Chance(1, 2)})
		}
	}
	if rc.Prop == "C05" && restarts == 0 {
		add(Op{Kind: "restart", A: int64(r.Intn(5)), B: int64(r.Intn(8)), C: int64(r.Range(1, 4))})
		for i := 0; i < r.Range(0, 8); i++ {
			add(Op{Kind: "pub", A: int64(r.Intn(3)), B: int64(r.Intn(8))})
		}
	}
	return ops
}

func genSizeClass(r *PRNG, prop string) int {
	if prop == "C07" {
		return r.Pick(0, 1, 2, 3, 4, 4, 4, 5)
	}
	return r.Pick(0, 0, 0, 1, 1, 2, 3, 4, 5)
}

func genSub(r *PRNG, c QCfg, prop string) Op {
	o := Op{Kind: "sub", A: int64(r.Intn(8)), B: int64(r.Intn(8))}
	o.C = []int64{0, 1, 1, 2, c.MaxRdy, c.MaxRdy}[r.Intn(6)]
	var flags int64
	flags |= int64(r.Pick(0, 0, 1, 1, 1, 2, 2, 1, 0, 3))
	if prop == "C04" || ((prop == "C02" || prop == "C03") && r.Chance(7, 10)) {
		flags = 1 // unbuffered: receipt time = send time, the client has seen every frame sent
	}
	if r.Chance(1, 3) {
		flags |= 1 << 2 // custom msg timeout
	}
	if r.Chance(1, 6) {
		flags |= 1 << 3
	}
	if (prop == "C01" || prop == "ALL") && r.Chance(1, 25) {
		flags |= 1 << 4 // sample rate
	}
	if prop == "C07" || r.Chance(1, 10) {
		flags |= int64(r.Intn(3)) << 5
		if r.Chance(1, 2) {
			flags |= 1 << 7
		}
	}
	if c.TLS && prop != "C07" && r.Chance(1, 2) {
		flags |= 1 << 7
	}
	flags |= int64(r.Intn(1<<20)) << 8 & 0x7fffffffffff00
	o.D = flags
	return o
}

// genSpelling: ways of writing a delay (C04).
func genSpelling(r *PRNG, c QCfg) string {
	max := c.MaxReqTimeoutMs
	return []string{
		"0", "00", "1", fmt.Sprint(max), fmt.Sprint(max + 1), "0" + fmt.Sprint(max), "2147483648", "9007199254740993",
		"9223372036854775807", "9223372036854775808", "18446744073709551615", "18446744073709551616", "18446744073710",
		"18446744073709552", "99999999999999999999999", "184467440737095516160000", "-1", "+5", " 5", "5 ", "abc", "1e3", "0x10", "",
		fmt.Sprint(max - 1), "36893488147419103232",
		// small numbers written with more than twenty digits
		"000000000000000000000100", "0000000000000000000000" + fmt.Sprint(max),
	}[r.Intn(28)]
}

// ---------------------------------------------------------------- the world

func queueWorld(rc *RunCtx) {
	w := &qWorld{rc: rc, pubs: map[string]*pubRec{}, chans: map[string]*chanModel{}, topics: map[string]*topicModel{},
		enforce: map[string]bool{}, idsByTopic: map[string]map[string]*pubRec{}}
	for _, p := range qEnforce[rc.Prop] {
		w.enforce[p] = true
	}
	var ops []Op
	if rc.Replay != nil {
		if err := json.Unmarshal(rc.Replay.Cfg, &w.cfg); err != nil {
			panic(err)
		}
		ops = rc.Replay.Ops
	} else {
		w.cfg = genQCfg(rc)
		ops = genQOps(rc, w.cfg)
	}
	c := w.cfg
	if rc.GenOnly(c, ops) {
		return
	}
	rc.Sched.Prob = c.YieldProb
	rc.Sched.Prefixes = c.YieldPrefixes
	rc.Sched.LongProb, rc.Sched.LongSpin = c.LongProb, c.LongSpin
	for _, s := range c.Steer {
		rc.Sched.Rules = append(rc.Sched.Rules, &simrt.Rule{Hold: s.Hold, Until: s.Until, MaxSpin: s.MaxSpin, Nth: s.Nth, OneShot: true})
	}
	simrt.Install(rc.Sched)
	netRng := NewPRNG(rc.Seed ^ 0x77)
	if c.ShortReads > 0 {
		rc.Net.ReadChunk = func(_ *simnet.Conn, avail int) int {
			if netRng.Intn(c.ShortReads) != 0 {
				return avail
			}
			rc.faults["short_read"]++
			return 1 + netRng.Intn(avail)
		}
	}
	rc.Logf("cfg %+v", c)
	if c.DeadLookupd == 1 {
		w.startDeadLookupd()
	}
	if err := w.startNSQD(); err != nil {
		rc.Violate(rc.Prop, "startup-failed", "%v", err)
		return
	}
	rc.Defer(func() { w.stopNSQD() })
	if c.TopicDiskFaults > 0 {
		frng := NewPRNG(rc.Seed ^ 0xd15c)
		simos.Install(&simos.Hooks{Before: func(ev *simos.Event) error {
			if ev.Op != "write" || !topicQueueFileRe.MatchString(filepath.Base(ev.Path)) || frng.Intn(c.TopicDiskFaults) != 0 {
				return nil
			}
			rc.Fault("topic_queue_write_error")
			return syscall.EIO
		}})
		rc.Defer(func() { simos.Install(nil) })
	}
	simclock.SetOffset(0)
	simclock.SetDrift(0, 0)
	drift0 := simclock.Drifted
	rc.Defer(func() {
		simclock.SetOffset(0)
		simclock.SetDrift(0, 0)
		rc.faults["id_clock_drift_ticks"] += int64(simclock.Drifted - drift0)
	})

	for i, op := range ops {
		rc.step = i + 1
		rc.Reseed(op.Uid)
		netRng = NewPRNG(rc.Seed*131 + uint64(op.Uid))
		if c.IDClockDrift > 0 {
			// the id generator's clock moves on between two readings, as it does when publishers really run in parallel
			simclock.SetDrift(mix64(rc.Seed*977+uint64(op.Uid)), uint64(c.IDClockDrift))
		}
		rc.opsKind[op.Kind]++
		if !w.inBurst {
			w.beginStep()
		}
		rc.Logf("op %d uid=%d %s a=%d b=%d c=%d d=%d s=%q s2=%q burst=%v", i, op.Uid, op.Kind, op.A, op.B, op.C, op.D, op.S, op.S2, op.Burst)
		w.exec(op)
		if rc.Failed() {
			break
		}
	}
	if !rc.Failed() {
		rc.step = len(ops) + 1
		rc.Reseed(1 << 20)
		w.settle()
	}
	if !rc.Failed() && !c.NoDrain {
		w.drain()
	}
	if !rc.Failed() {
		w.finalChecks()
		if w.enforce["C08"] || w.enforce["C13"] {
			w.checkStats()
			w.checkDataDir()
		}
	}
	rc.Res.Ops = len(ops)
	rc.Res.Nontrivial = rc.probes["deliveries"] > 0 && (rc.Sched.Yields > 0 || len(rc.faults) > 0 || rc.opsKind["adv"] > 0)
	rc.Res.State = w.stateFingerprint()
	for k, v := range map[string]int64{"resets": rc.Net.Stats.Resets, "short_reads": rc.Net.Stats.ShortReads} {
		if v > 0 {
			rc.faults["net_"+k] = v
		}
	}
	sample := map[string]interface{}{"seed": rc.Seed, "cfg": c, "ops_head": head(ops, 14), "n_ops": len(ops),
		"deliveries": rc.probes["deliveries"], "fins": rc.probes["fin_accepted"], "publishes": len(w.pubList)}
	rc.Res.Sample, _ = json.Marshal(sample)
	if rc.Failed() {
		rc.writeReplay(c, ops)
	}
}

func head(ops []Op, n int) []Op {
	if len(ops) > n {
		return ops[:n]
	}
	return ops
}

func (w *qWorld) stateFingerprint() string {
	var parts []string
	for _, k := range w.sortedChanKeys() {
		c := w.chans[k]
		fin := 0
		for _, mc := range c.msgs {
			if mc.fin {
				fin++
			}
		}
		parts = append(parts, fmt.Sprintf("%s:%v:%v:%d:%d:%d", k, c.Exists, c.Paused, bucket(len(c.msgs)), bucket(fin), c.Epoch))
	}
	sort.Strings(parts)
	return fmt.Sprintf("%016x", fnv([]byte(fmt.Sprint(parts, len(w.cons), w.lifetime))))
}

func bucket(n int) int {
	switch {
	case n == 0:
		return 0
	case n < 3:
		return 1
	case n < 10:
		return 2
	case n < 50:
		return 3
	}
	return 4
}

func (w *qWorld) exec(op Op) {
	if op.Burst {
		w.inBurst = true
	}
	if op.Kind != "adv" && op.Kind != "stats" && op.Kind != "restart" {
		w.burstOps = append(w.burstOps, op)
	}
	var completion func()
	switch op.Kind {
	case "pub":
		completion = w.opPub(op)
	case "sub":
		// a subscribe may race whatever was just sent without waiting (e.g. the
		// last consumer of an ephemeral channel leaving); pending publishes and
		// admin calls are completed first
		if len(w.pending) > 0 {
			w.settleIfBurst()
		}
		w.opSub(op)
		if w.inBurst {
			w.settle()
			w.afterSettle()
		}
		if w.steering {
			w.rc.Sched.Rules = nil
			w.steering = false
		}
	case "rdy":
		if co := w.liveConsumer(op.A); co != nil {
			if co.Closing {
				// after CLS nothing more is sent, whatever the connection asks for: a RDY on a closing
				// connection must not re-arm delivery (the model keeps RDY 0; message-after-cls watches)
				if op.B >= 0 && op.B <= w.cfg.MaxRdy {
					co.cl.Cmd(fmt.Sprintf("RDY %d", op.B), nil)
					w.rc.Probe("rdy_after_cls")
				}
			} else if op.B < 0 || op.B > w.cfg.MaxRdy {
				co.fatalSent = true
				co.expectClose = true
				co.expectCloseStep = w.epoch
				co.cl.Cmd(fmt.Sprintf("RDY %d", op.B), nil)
				w.badRdy = append(w.badRdy, co)
			} else if !co.Closing {
				w.setRdy(co, op.B)
			}
		}
	case "fin", "req", "touch", "stale":
		w.opAnswer(op)
	case "cls":
		w.settleIfBurst()
		if co := w.liveConsumer(op.A); co != nil && !co.Closing {
			co.cl.Cmd("CLS", nil)
			f, ok := co.cl.WaitFrame(30*time.Second, isNonMsg)
			if ok && f.Type == frameResponse && string(f.Data) == "CLOSE_WAIT" {
				co.Closing, co.ClsStep = true, w.epoch
				co.Rdy = 0
			} else if !ok && !co.cl.Closed() {
				w.violate("C03", "cls-unanswered", "%s: CLS got no CLOSE_WAIT", co.cl.Name)
			}
		}
	case "close":
		w.opClose(op)
	case "clock":
		simclock.SetOffset(ms(op.A))
		w.rc.Fault("id_clock_step")
		if op.A < 0 {
			w.rc.Fault("id_clock_step_back")
		}
		return
	case "adv":
		w.settleIfBurst()
		d := ms(op.A)
		if op.A < 0 {
			// long enough for everything that is in flight now to be overdue by the end, whatever its timeout
			d = ms(w.cfg.MaxMsgTimeoutMs) + w.lateSlack() + 50*time.Millisecond
			w.rc.Probe("advance_until_everything_is_overdue")
		}
		if op.B > 0 {
			// to 2 ms before the next output-buffer tick of the selected consumer
			if co := w.liveConsumer(op.B); co != nil {
				if u := co.untilTick(); u > 2*time.Millisecond {
					d = u - 2*time.Millisecond
				}
			}
		}
		time.Sleep(d)
		w.lastAdvance = d
		w.settle()
		w.resolveUncertain()
		if w.enforce["C13"] || w.enforce["C08"] || w.enforce["C03"] {
			w.checkStats()
		}
		if w.enforce["C08"] {
			w.checkDataDir()
		}
		if w.enforce["C04"] {
			w.checkLate()
			w.checkStuckInFlight()
			if op.B == 0 {
				w.checkDeferredLate(d)
			}
		}
		return
	case "stats":
		w.settleIfBurst()
		w.checkStats()
		return
	case "createpub":
		// A channel is created over HTTP while the topic's pump is busy with an
		// earlier publish; the moment the creation is acknowledged (the answer has
		// been read - the daemon is NOT given time to settle) the next publish is
		// sent. It was sent after the acknowledgement, so the new channel owes it.
		w.settleIfBurst()
		w.inBurst = true
		if f := w.opPub(Op{Uid: op.Uid*16 + 1, Kind: "pub", A: 0, B: op.A, C: op.C % 2}); f != nil {
			w.pending = append(w.pending, f)
		}
		if f := w.opAdmin(Op{Uid: op.Uid*16 + 2, Kind: "admin", S: "create_channel", A: op.A, B: op.B}); f != nil {
			f() // waits for the HTTP answer only
		}
		if f := w.opPub(Op{Uid: op.Uid*16 + 3, Kind: "pub", A: 1, B: op.A, C: 0}); f != nil {
			w.pending = append(w.pending, f)
		}
		w.rc.Probe("publish_right_after_channel_creation")
		w.settle()
		w.afterSettle()
		return
	case "ackempty":
		// The window the C03/C13 anchors name: an acknowledgement between taking the message out of the
		// in-flight set and adjusting the connection's in-flight count, with the channel emptied and the
		// next message handed to that connection in between. The FIN/REQ handler is held at the count
		// adjustment until a delivery to some connection has been counted (or it gives up).
		w.settleIfBurst()
		co := w.liveConsumer(op.A)
		if co == nil || co.Closing || len(heldOf(co)) == 0 || w.rc.Sched == nil {
			return
		}
		saved := w.rc.Sched.Rules
		if op.B == 2 {
			// third way out of the in-flight set: the timeout scan. The driver sleeps to the scanner tick at
			// which the oldest untouched delivery of this connection expires (ticks are multiples of the
			// scan interval from the daemon's start; a miss only makes this an ordinary empty + publish)
			// and sends the empty and the publish at that same instant; the scanner is held where it
			// tells the connection about the timeout.
			var d *delivery
			for _, h := range heldOf(co) {
				if len(h.Touches) == 0 && len(h.pendingTouch) == 0 && (d == nil || h.At.Before(d.At)) {
					d = h
				}
			}
			iv := ms(w.cfg.ScanIntervalMs)
			if d == nil || iv <= 0 {
				return
			}
			dl := d.At.Add(co.MsgTimeout).Sub(w.mainStart)
			tick := w.mainStart.Add((dl + iv - 1) / iv * iv)
			wait := time.Until(tick)
			if wait <= 0 || wait > 40*time.Second {
				return
			}
			w.rc.Sched.Rules = []*simrt.Rule{{Hold: "nsqd.clientV2.decrInFlightCount*", Until: "nsqd.clientV2.SendingMessage*", MaxSpin: 20000, OneShot: true}}
			w.rc.Logf("ackempty: %s holds m%06d since %v (timeout %v); scanner tick at %v", co.cl.Name, d.mc.pub.N, d.At.Sub(w.rc.start), co.MsgTimeout, tick.Sub(w.rc.start))
			time.Sleep(wait)
			w.lastAdvance = wait
			w.inBurst = true
			w.rc.Probe("steered_timeout_vs_empty")
		} else if op.B == 3 {
			// TOUCH: the message leaves the in-flight set and its timeout queue in two steps and is put
			// back afterwards; held between the two steps while the channel is emptied and the next
			// message goes out (whose timeout entry must survive the TOUCH's second step)
			w.rc.Sched.Rules = []*simrt.Rule{{Hold: "nsqd.Channel.removeFromInFlightPQ*", Until: "nsqd.clientV2.SendingMessage*", MaxSpin: 20000, OneShot: true}}
			w.inBurst = true
			w.opAnswer(Op{Uid: op.Uid*16 + 1, Kind: "touch", A: op.A, B: op.C})
			w.rc.Probe("steered_touch_vs_empty")
		} else {
			hold := []string{"nsqd.clientV2.FinishedMessage*", "nsqd.clientV2.RequeuedMessage*"}[op.B%2]
			w.rc.Sched.Rules = []*simrt.Rule{{Hold: hold, Until: "nsqd.clientV2.SendingMessage*", MaxSpin: 20000, OneShot: true}}
			w.inBurst = true
			w.opAnswer(Op{Uid: op.Uid*16 + 1, Kind: []string{"fin", "req"}[op.B%2], A: op.A, B: op.C})
		}
		if f := w.opAdmin(Op{Uid: op.Uid*16 + 2, Kind: "admin", S: "empty_channel", A: w.topicIdx(co.Topic), B: w.chanIdx(co.Channel)}); f != nil {
			w.pending = append(w.pending, f)
		}
		if f := w.opPub(Op{Uid: op.Uid*16 + 3, Kind: "pub", B: w.topicIdx(co.Topic), C: 0}); f != nil {
			w.pending = append(w.pending, f)
		}
		w.settle()
		w.afterSettle()
		if op.B >= 2 && len(w.rc.Sched.Rules) == 1 && w.rc.Sched.Rules[0].Fired > 0 {
			w.rc.Probe([]string{"steered_timeout_vs_empty_held", "steered_touch_vs_empty_held"}[op.B-2])
		}
		w.rc.Sched.Rules = saved
		w.rc.Probe("steered_acknowledgement_vs_empty")
		// the next message: with a count that lost a message the connection gets it beyond its RDY
		if f := w.opPub(Op{Uid: op.Uid*16 + 4, Kind: "pub", B: w.topicIdx(co.Topic), C: 0}); f != nil {
			w.pending = append(w.pending, f)
		}
		w.settle()
		w.afterSettle()
		return
	case "admin":
		completion = w.opAdmin(op)
	case "restart":
		w.opRestart(op)
		return
	}
	if completion != nil {
		w.pending = append(w.pending, completion)
	}
	if !op.Burst {
		w.settle()
		w.afterSettle()
	}
}

func (w *qWorld) settleIfBurst() {
	if w.inBurst || len(w.pending) > 0 {
		w.settle()
		w.afterSettle()
	}
}

// afterSettle: checks that need a quiescent server.
func (w *qWorld) afterSettle() {
	// administrative operations that ran concurrently with anything else: the
	// resulting registry state depends on the interleaving, so it is adopted
	// from /stats (existence and paused flags only; counters become unknown)
	// a channel deleted and asked for again at the same time (and nothing else
	// going on): whichever came first, what is there afterwards is empty
	if len(w.burstOps) >= 2 && w.enforce["C08"] && w.n != nil {
		only := true
		var del *Op
		for i, o := range w.burstOps {
			if o.Kind != "admin" || (o.S != "delete_channel" && o.S != "create_channel") || o.A != w.burstOps[0].A || o.B != w.burstOps[0].B {
				only = false
			}
			if o.S == "delete_channel" {
				del = &w.burstOps[i]
			}
		}
		if only && del != nil {
			topic, ch := w.topicName(del.A), w.chanName(del.B)
			// (the delete found the channel: the topic's backlog had been flowing into it)
			if t := w.topics[topic]; t != nil && !t.Paused && !t.ExistUnknown && w.burstAdmin["delete_channel|"+topic+"/"+ch] == 200 {
				if doc, _ := w.getStats(""); doc != nil {
					if sc := doc.channel(topic, ch); sc != nil && sc.Depth+sc.InFlightCount+sc.DeferredCount != 0 {
						w.violate("C08", "recreated-channel-not-empty", "channel %s/%s was deleted and created again concurrently; afterwards it holds depth %d, in flight %d, deferred %d", topic, ch, sc.Depth, sc.InFlightCount, sc.DeferredCount)
					}
					w.rc.Probe("delete_create_race_checked")
				}
			}
		}
	}
	if len(w.burstOps) >= 2 {
		for _, o := range w.burstOps {
			if o.Kind != "admin" {
				continue
			}
			topic := w.topicName(o.A)
			t := w.topic(topic)
			t.ExistUnknown = true
			t.Tainted = true
			for _, c := range w.chans {
				if c.Topic == topic {
					c.Uncertain = true
				}
			}
			w.channel(topic, w.chanName(o.B)).Uncertain = true
		}
	}
	if len(w.burstOps) >= 2 {
		// ephemeral objects come and go through asynchronous callbacks: after
		// concurrent operations their existence is adopted from /stats
		for _, t := range w.topics {
			if t.Ephemeral {
				t.ExistUnknown = true
				t.Tainted = true
			}
		}
		for _, c := range w.chans {
			if c.Ephemeral || w.topic(c.Topic).Ephemeral {
				c.Uncertain = true
			}
		}
	}
	w.burstOps = nil
	w.burstAdmin = nil
	w.resolveUncertain()
	// RDY outside [0, max] must have been refused with a fatal E_INVALID (C03)
	for _, co := range w.badRdy {
		if !co.cl.Closed() {
			w.violate("C03", "bad-rdy-accepted", "%s: RDY outside [0,%d] did not close the connection", co.cl.Name, w.cfg.MaxRdy)
		}
	}
	w.badRdy = nil
	for _, co := range w.badReq {
		if !co.cl.Closed() {
			w.violate("C04", "non-numeric-req-accepted", "%s: REQ with a delay that is not a number did not end the connection with E_INVALID", co.cl.Name)
		}
	}
	w.badReq = nil
}
