package zzverif

import (
	"math/big"
	"bytes"
	"encoding/binary"
	"encoding/json"
	"fmt"
	"net/url"
	"sort"
	"strings"
	"testing/synctest"
	"time"

	"github.com/nsqio/nsq/nsqd"
)

func init() { registerWorld("proto", protoWorld) }

// PCfg: configuration of a protocol-world run (C09: TCP protocol, C10: HTTP API).
type PCfg struct {
	MaxMsgSize  int64  `json:"max_msg_size"`
	MaxBodySize int64  `json:"max_body_size"`
	MaxRdy      int64  `json:"max_rdy"`
	MaxReqMs    int64  `json:"max_req_ms"`
	MaxHBMs     int64  `json:"max_heartbeat_ms"`
	MaxOBSize   int64  `json:"max_output_buffer_size"`
	MaxOBTMs    int64  `json:"max_output_buffer_timeout_ms"`
	MaxMsgTOMs  int64  `json:"max_msg_timeout_ms"`
	MemQueue    int64  `json:"mem_queue_size"`
	YieldProb   uint32 `json:"yield_prob"`
	ShortReads  int    `json:"short_reads"`
	MaxDeflate  int    `json:"max_deflate_level,omitempty"` // 0 = nsqd's default (6)
	UnixTCP     bool   `json:"unix_tcp,omitempty"`  // the client port is a unix-domain socket
	UnixHTTP    bool   `json:"unix_http,omitempty"` // the HTTP port is a unix-domain socket
}

type pConn struct {
	cl       *V2Client
	state    string // init, subscribed, closing
	hbOff    bool
	topic    string
	channel  string
	dead     bool
	held     []string // ids delivered on this connection
	identified bool
	loose    bool // behaviour from here on is not specified (e.g. after a second IDENTIFY)
	finished map[string]bool
}

type pWorld struct {
	rc    *RunCtx
	cfg   PCfg
	n     *nsqd.NSQD
	tcp   string
	http  string
	conns []*pConn
	// bystander
	byPub, byCons *V2Client
	byN           int
	// model of registry and counters for side-effect checks
	topicCount map[string]int64 // acknowledged messages per topic (this incarnation)
	lookupdList []string        // C10: the nsqlookupd list configured at run time
	topics     map[string]bool
	chans      map[string]bool
	paused     map[string]bool
	bodyN      int
	twinLedger map[string][]string // topic -> accepted bodies (HTTP ≡ TCP)
	maybeTopics map[string]bool
}

func (w *pWorld) violate(prop, class, format string, a ...interface{}) {
	if prop != w.rc.Prop {
		w.rc.Logf("(not enforced here) %s %s: %s", prop, class, fmt.Sprintf(format, a...))
		return
	}
	w.rc.Violate(prop, class, format, a...)
}

func genPCfg(rc *RunCtx) PCfg {
	r := rc.Rng
	c := PCfg{}
	c.MaxMsgSize = int64(r.Pick(16, 64, 300, 5000))
	c.MaxBodySize = c.MaxMsgSize * int64(r.Pick(3, 8, 40))
	if c.MaxBodySize < 256 {
		c.MaxBodySize = 256 // the IDENTIFY bodies used here must fit
	}
	c.MaxRdy = int64(r.Pick(1, 5, 2500))
	c.MaxReqMs = int64(r.Pick(1000, 60000, 3600000))
	c.MaxHBMs = int64(r.Pick(2000, 60000))
	c.MaxOBSize = int64(r.Pick(64, 1024, 65536))
	c.MaxOBTMs = int64(r.Pick(100, 30000))
	c.MaxMsgTOMs = int64(r.Pick(2000, 900000))
	c.MemQueue = int64(r.Pick(0, 2, 10000))
	c.YieldProb = uint32(r.Pick(0, 1024, 4096))
	c.ShortReads = r.Pick(0, 2, 8)
	c.MaxDeflate = r.Pick(0, 1, 3, 6, 9)
	if ur := NewPRNG(rc.Seed ^ 0x50c8); ur.Chance(1, 4) {
		// every mix of listeners: both unix sockets, or only one of them
		switch ur.Intn(3) {
		case 0:
			c.UnixTCP = true
		case 1:
			c.UnixHTTP = true
		default:
			c.UnixTCP, c.UnixHTTP = true, true
		}
	}
	return c
}

func protoWorld(rc *RunCtx) {
	w := &pWorld{rc: rc, topicCount: map[string]int64{}, topics: map[string]bool{}, chans: map[string]bool{}, paused: map[string]bool{}, twinLedger: map[string][]string{}}
	var ops []Op
	if rc.Replay != nil {
		if err := json.Unmarshal(rc.Replay.Cfg, &w.cfg); err != nil {
			panic(err)
		}
		ops = rc.Replay.Ops
	} else {
		w.cfg = genPCfg(rc)
		if rc.Prop == "C10" {
			ops = genHTTPOps(rc, w.cfg)
		} else {
			ops = genTCPOps(rc, w.cfg)
		}
	}
	c := w.cfg
	if rc.GenOnly(c, ops) {
		return
	}
	rc.Sched.Prob = c.YieldProb
	netRng := NewPRNG(rc.Seed ^ 0x55)
	installShortReads(rc, c.ShortReads, &netRng)
	o := nsqd.NewOptions()
	o.Logger = &simLogger{rc: rc, name: "nsqd"}
	o.TCPAddress, o.HTTPAddress, o.HTTPSAddress = "127.0.0.1:4150", "127.0.0.1:4151", "127.0.0.1:4152"
	if c.UnixTCP {
		o.TCPAddress = "/sim/nsqd.sock"
	}
	if c.UnixHTTP {
		o.HTTPAddress = "/sim/nsqd-http.sock"
	}
	o.BroadcastAddress = "127.0.0.1"
	o.DataPath = rc.Dir
	o.MaxMsgSize, o.MaxBodySize, o.MaxRdyCount = c.MaxMsgSize, c.MaxBodySize, c.MaxRdy
	o.MaxReqTimeout = ms(c.MaxReqMs)
	o.MaxHeartbeatInterval = ms(c.MaxHBMs)
	o.MaxOutputBufferSize = c.MaxOBSize
	o.MaxOutputBufferTimeout = ms(c.MaxOBTMs)
	o.MinOutputBufferTimeout = 25 * time.Millisecond
	o.MaxMsgTimeout = ms(c.MaxMsgTOMs)
	o.MsgTimeout = 1 * time.Second
	if o.MsgTimeout > o.MaxMsgTimeout {
		o.MsgTimeout = o.MaxMsgTimeout
	}
	o.MemQueueSize = c.MemQueue
	if c.MaxDeflate > 0 {
		o.MaxDeflateLevel = c.MaxDeflate
	}
	o.ClientTimeout = 60 * time.Second
	o.QueueScanInterval = 100 * time.Millisecond
	n, err := nsqd.New(o)
	if err != nil {
		rc.Violate(rc.Prop, "startup-failed", "%v", err)
		return
	}
	n.LoadMetadata()
	n.PersistMetadata()
	w.n = n
	go n.Main()
	rc.Defer(func() { n.Exit(); synctest.Wait() })
	w.tcp, w.http = o.TCPAddress, o.HTTPAddress
	synctest.Wait()
	rc.Logf("cfg %+v", c)
	if !w.bystanderSetup() {
		return
	}
	if rc.Prop == "C10" {
		for _, t := range []string{"twinh", "twint"} {
			httpDo(rc, "POST", w.http, "/topic/create?topic="+t, nil, nil, nil, 10*time.Second)
			httpDo(rc, "POST", w.http, "/channel/create?topic="+t+"&channel=ch", nil, nil, nil, 10*time.Second)
		}
	}
	for i, op := range ops {
		rc.step = i + 1
		rc.Reseed(op.Uid)
		netRng = NewPRNG(rc.Seed*131 + uint64(op.Uid))
		rc.opsKind[op.Kind]++
		rc.Logf("op %d uid=%d %s a=%d b=%d c=%d d=%d s=%q s2=%q data=%d", i, op.Uid, op.Kind, op.A, op.B, op.C, op.D, op.S, op.S2, len(op.Data))
		switch op.Kind {
		case "cmd":
			w.execCmd(op)
		case "garbage":
			w.execGarbage(op)
		case "negotiate":
			w.execNegotiate(op)
		case "abortup":
			w.execAbortUpload(op)
		case "badquery":
			w.execBadQuery(op)
		case "http":
			w.execHTTPReq(op)
		case "twinpub":
			w.execTwin(op)
		case "adv":
			time.Sleep(ms(op.A))
		}
		synctest.Wait()
		if rc.Failed() {
			break
		}
		if i%3 == 2 || op.Kind == "garbage" {
			w.bystanderRoundTrip()
		}
		if rc.Failed() {
			break
		}
	}
	if !rc.Failed() {
		w.bystanderRoundTrip()
		if rc.Prop == "C10" {
			w.twinCompare()
		}
	}
	rc.Res.Ops = len(ops)
	rc.Res.Nontrivial = len(ops) > 3
	st := fmt.Sprint(w.topicCount, len(w.conns))
	rc.Res.State = fmt.Sprintf("%016x", fnv([]byte(st)))
	sample := map[string]interface{}{"seed": rc.Seed, "cfg": c, "ops_head": head(ops, 12), "n_ops": len(ops)}
	rc.Res.Sample, _ = json.Marshal(sample)
	if rc.Failed() {
		rc.writeReplay(c, ops)
	}
}

// ---------------------------------------------------------------- bystander

func (w *pWorld) bystanderSetup() bool {
	var err error
	w.byPub, err = dialV2(w.rc, "bypub", w.tcp, "  V2")
	if err != nil {
		w.rc.Violate(w.rc.Prop, "startup-failed", "%v", err)
		return false
	}
	w.byPub.Start()
	w.byCons, _ = dialV2(w.rc, "bycons", w.tcp, "  V2")
	w.byCons.Identify(map[string]interface{}{"client_id": "bycons", "output_buffer_size": -1, "feature_negotiation": true}, nil)
	synctest.Wait()
	w.byCons.Start()
	w.byCons.Cmd("SUB bystander ch", nil)
	if f, ok := w.byCons.WaitFrame(10*time.Second, isNonMsg); !ok || string(f.Data) != "OK" {
		w.rc.Violate(w.rc.Prop, "startup-failed", "bystander SUB: %q", f.Data)
		return false
	}
	w.byCons.Cmd("RDY 1", nil)
	synctest.Wait()
	return true
}

// bystanderRoundTrip: other clients are unaffected (publish, consume, finish).
func (w *pWorld) bystanderRoundTrip() {
	w.byN++
	body := []byte(fmt.Sprintf("bystander-%d", w.byN))
	if int64(len(body)) > w.cfg.MaxMsgSize {
		body = body[len(body)-int(w.cfg.MaxMsgSize):]
	}
	w.byPub.Cmd("PUB bystander", body)
	f, ok := w.byPub.WaitFrame(30*time.Second, isNonMsg)
	if !ok || string(f.Data) != "OK" {
		w.violate(w.rc.Prop, "bystander-publish-failed", "well-behaved publisher got %q ok=%v after step %d", f.Data, ok, w.rc.step)
		return
	}
	m, ok := w.byCons.WaitFrame(30*time.Second, func(f Frame) bool { return f.Type == frameMessage })
	if !ok {
		w.violate(w.rc.Prop, "bystander-consume-failed", "well-behaved consumer received nothing after step %d (closed=%v)", w.rc.step, w.byCons.Closed())
		return
	}
	wm, _ := decodeWireMsg(m.Data)
	if !bytes.Equal(wm.Body, body) {
		w.violate(w.rc.Prop, "bystander-wrong-message", "well-behaved consumer received %q, expected %q", wm.Body, body)
	}
	w.byCons.Cmd("FIN "+wm.ID, nil)
	w.rc.Probe("bystander_roundtrips")
	r := httpDo(w.rc, "GET", w.http, "/ping", nil, nil, nil, 10*time.Second)
	if r.Err != nil || r.Status != 200 {
		w.violate(w.rc.Prop, "daemon-unhealthy", "/ping -> %d %v %s", r.Status, r.Err, r.Body)
	}
}

// ---------------------------------------------------------------- C09: TCP commands with a reference table

func (w *pWorld) name(sel int64) string {
	names := []string{"h0", "h1", "h.2_-", strings.Repeat("n", 64), "e#ephemeral", // valid
		"", "bad name", "bad$", strings.Repeat("n", 65), "#ephemeral", "h0#ephemeralx", "h0\x00", "日本", // invalid
		// every other printable ASCII character that a name may not contain, one by one (a character class
		// written A-z instead of A-Z lets five of them through)
		"h[x", "h\\x", "h]x", "h^x", "h`x", "h@x", "h/x", "h:x", "h{x", "h~x", "h!x", "h+x", "h=x", "h,x", "h*x", "h(x", "h%x", "h&x", "h?x", "h;x", "h<x", "h|x", "h'x", "h\"x"}
	return names[int(uint64(sel)%uint64(len(names)))]
}

const nPNames = 37 // len of the table above

// pname: a selector into the name table - the first 13 entries (the ordinary names) most of the time
func pname(r *PRNG) int {
	if r.Chance(1, 4) {
		return r.Intn(nPNames)
	}
	return r.Intn(13)
}

func genTCPOps(rc *RunCtx, c PCfg) []Op {
	r := rc.Rng
	n := r.Range(10, 60)
	var ops []Op
	add := func(o Op) { o.Uid = len(ops); ops = append(ops, o) }
	for len(ops) < n {
		conn := int64(r.Intn(3))
		switch r.Weighted([]int{10, 10, 12, 10, 8, 8, 6, 6, 4, 3, 5, 4, 4, 6, 3, 3}) {
		case 0:
			add(Op{Kind: "cmd", S: "IDENTIFY", A: conn, B: int64(r.Intn(31))})
		case 1:
			add(Op{Kind: "cmd", S: "SUB", A: conn, B: int64(pname(r)), C: int64(pname(r)), D: int64(r.Intn(4))})
		case 2:
			add(Op{Kind: "cmd", S: "PUB", A: conn, B: int64(pname(r)), C: int64(r.Intn(9))})
		case 3:
			add(Op{Kind: "cmd", S: "MPUB", A: conn, B: int64(pname(r)), C: int64(r.Intn(12)), D: int64(r.Range(1, 5))})
		case 4:
			add(Op{Kind: "cmd", S: "DPUB", A: conn, B: int64(pname(r)), C: int64(r.Intn(9)), D: int64(r.Intn(14))})
		case 5:
			add(Op{Kind: "cmd", S: "RDY", A: conn, B: int64(r.Intn(15))})
		case 6:
			add(Op{Kind: "cmd", S: r.PickS("FIN", "REQ", "TOUCH"), A: conn, B: int64(r.Intn(6)), C: int64(r.Intn(8))})
		case 7:
			add(Op{Kind: "cmd", S: r.PickS("CLS", "NOP", "NOP"), A: conn})
		case 8:
			add(Op{Kind: "cmd", S: "AUTH", A: conn, B: int64(r.Intn(4))})
		case 9:
			add(Op{Kind: "cmd", S: "UNKNOWN", A: conn, B: int64(r.Intn(5))})
		case 10:
			add(Op{Kind: "garbage", A: conn, B: int64(r.Intn(8)), Data: genGarbage(r, c)})
		case 11:
			add(Op{Kind: "cmd", S: "MAGIC", A: conn, B: int64(r.Intn(4))})
		case 12:
			add(Op{Kind: "cmd", S: "CLOSE", A: conn, B: int64(r.Intn(2))})
		case 13:
			add(Op{Kind: "cmd", S: "TRUNC", A: conn, B: int64(r.Intn(13)), C: int64(r.Intn(4)), D: int64(r.Intn(40))})
		case 14:
			add(Op{Kind: "adv", A: int64(r.Pick(10, 500, 2000))})
		case 15:
			add(Op{Kind: "negotiate", A: int64(r.Intn(12)), B: int64(r.Intn(3))})
		}
	}
	return ops
}

func genGarbage(r *PRNG, c PCfg) []byte {
	var b bytes.Buffer
	switch r.Intn(5) {
	case 0:
		for i := 0; i < r.Range(1, 200); i++ {
			b.WriteByte(byte(r.Intn(256)))
		}
	case 1:
		b.WriteString(strings.Repeat("X", r.Pick(100, 16384, 16385, 40000)))
	case 2: // a valid stream with a flipped byte
		s := []byte("PUB h0\n\x00\x00\x00\x03abcNOP\nRDY 1\n")
		s[r.Intn(len(s))] ^= byte(1 << uint(r.Intn(8)))
		b.Write(s)
	case 3:
		b.WriteString("MPUB h0\n")
		b.Write(be32(int32(r.Pick(-1, 0, 7, 1<<30))))
		b.Write(be32(int32(r.Pick(-1, 0, 2, 1<<30))))
		b.Write(be32(int32(r.Pick(-5, 0, 3))))
		b.WriteString("ab")
	case 4:
		b.WriteString("\n\n\r\n  \nFIN\nREQ x\n")
	}
	return b.Bytes()
}

func (w *pWorld) conn(i int64) *pConn {
	for len(w.conns) < 3 {
		w.conns = append(w.conns, nil)
	}
	idx := int(uint64(i) % 3)
	pc := w.conns[idx]
	if pc == nil || pc.dead {
		cl, err := dialV2(w.rc, fmt.Sprintf("h%d", idx), w.tcp, "")
		if err != nil {
			w.violate("C09", "connect-refused", "%v", err)
			return nil
		}
		pc = &pConn{cl: cl, state: "new", finished: map[string]bool{}}
		w.conns[idx] = pc
	}
	return pc
}

// expect: code=="" && !closes: no error frame; resp: "OK"/"CLOSE_WAIT"/"json"/"" (nothing)
type pExpect struct {
	code   string // error code expected ("" = none)
	codes  []string
	resp   string
	closes bool
	open   bool // outcome not specified
}

func (w *pWorld) body(r *PRNG, sel int64) (body []byte, sizeField int32, ok bool) {
	max := int(w.cfg.MaxMsgSize)
	w.bodyN++
	mk := func(n int) []byte {
		b := []byte(fmt.Sprintf("b%05d|", w.bodyN))
		for len(b) < n {
			b = append(b, byte('a'+r.Intn(26)))
		}
		return b[:n]
	}
	switch sel % 9 {
	case 0:
		b := mk(max)
		return b, int32(max), true
	case 1:
		b := mk(max + 1)
		return b, int32(max + 1), false
	case 2:
		return nil, 0, false
	case 3:
		return nil, -1, false
	case 4:
		b := mk(1)
		return b, 1, true
	case 5:
		return nil, int32(1 << 30), false
	case 6:
		return nil, -2147483648, false
	default:
		n := 1 + r.Intn(max)
		b := mk(n)
		return b, int32(n), true
	}
}

func (w *pWorld) execCmd(op Op) {
	rc := w.rc
	r := NewPRNG(rc.Seed*977 + uint64(op.Uid))
	pc := w.conn(op.A)
	if pc == nil {
		return
	}
	cl := pc.cl
	if pc.state == "new" && op.S != "MAGIC" {
		cl.Send([]byte("  V2"))
		cl.Start()
		pc.state = "init"
	}
	var buf bytes.Buffer
	exp := pExpect{}
	fatal := func(code string) { exp = pExpect{code: code, closes: true} }
	var pubTopic string
	var pubCount int64
	switch op.S {
	case "MAGIC":
		if pc.state != "new" {
			return
		}
		m := []string{"  V2", "  V1", "V2  ", "\x00\x00\x00\x00"}[op.B%4]
		cl.Send([]byte(m))
		cl.Start()
		if m == "  V2" {
			pc.state = "init"
			return
		}
		synctest.Wait()
		fs := cl.Drain()
		if len(fs) != 1 || fs[0].Type != frameError || string(fs[0].Data) != "E_BAD_PROTOCOL" || !cl.Closed() {
			w.violate("C09", "bad-magic", "magic %q: frames %v closed=%v", m, frameSummary(fs), cl.Closed())
		}
		pc.dead = true
		return
	case "CLOSE":
		if op.B == 1 {
			cl.Conn.Reset()
		} else {
			cl.Close()
		}
		pc.dead = true
		return
	case "IDENTIFY":
		obj, valid := w.identifyBody(op.B)
		buf.WriteString("IDENTIFY\n")
		buf.Write(be32(int32(len(obj))))
		buf.Write(obj)
		switch {
		case pc.state != "init":
			fatal("E_INVALID")
		case pc.identified:
			// a second IDENTIFY before SUB: not specified
			exp = pExpect{open: true}
			pc.loose = true
		case !valid:
			fatal("E_BAD_BODY")
			if op.B%31 == 20 {
				fatal("E_IDENTIFY_FAILED")
			}
		default:
			pc.identified = true
			exp = pExpect{resp: "OK"}
			if bytes.Contains(obj, []byte(`"feature_negotiation":true`)) {
				exp.resp = "json"
			}
			if bytes.Contains(obj, []byte(`"heartbeat_interval":-1`)) {
				pc.hbOff = true
			}
		}
		if int64(len(obj)) > w.cfg.MaxBodySize {
			fatal("E_BAD_BODY")
			if pc.state != "init" {
				exp.codes = []string{"E_INVALID", "E_BAD_BODY"}
			}
		}
	case "SUB":
		t, ch := w.name(op.B), w.name(op.C)
		line := "SUB " + t + " " + ch
		if op.D == 3 {
			line = "SUB " + t
		}
		buf.WriteString(line + "\n")
		switch {
		case pc.state != "init":
			fatal("E_INVALID")
		case pc.hbOff:
			fatal("E_INVALID")
		case strings.ContainsAny(t, " ") || (op.D != 3 && strings.ContainsAny(ch, " ")):
			exp = pExpect{open: true, closes: true} // the space changes the parameter split
			pc.loose = true
		case op.D == 3 || len(strings.Split(line, " ")) < 3:
			fatal("E_INVALID")
		case !validName(t):
			fatal("E_BAD_TOPIC")
		case !validName(ch):
			fatal("E_BAD_CHANNEL")
		default:
			exp = pExpect{resp: "OK"}
			pc.state, pc.topic, pc.channel = "subscribed", t, ch
			w.topics[t] = true
		}
	case "PUB", "DPUB":
		t := w.name(op.B)
		body, size, okBody := w.body(r, op.C)
		line := "PUB " + t
		validDelay := true
		if op.S == "DPUB" {
			// (the spellings around 2^64 wrap to small numbers in a parser that forgets the carry)
			d := []string{"0", "1", fmt.Sprint(w.cfg.MaxReqMs), fmt.Sprint(w.cfg.MaxReqMs + 1), "-1", "abc", "99999999999999999999999", "",
				"18446744073709551615", "18446744073709551616", "18446744073709551617", "184467440737095516161", "9223372036854775808",
				"000000000000000000000001"}[op.D%14] // (the last: a small number written with more than twenty digits)
			line = "DPUB " + t + " " + d
			v, valid, known := spelledDelay(d, false)
			validDelay = known && valid && v.Sign() >= 0 && v.Cmp(bigInt(w.cfg.MaxReqMs)) <= 0
			if !known {
				validDelay = false // missing parameter
			}
		}
		buf.WriteString(line + "\n")
		buf.Write(be32(size))
		buf.Write(body)
		switch {
		case strings.ContainsAny(t, " ") || t == "":
			exp = pExpect{open: true, closes: true}
		case !validName(t):
			fatal("E_BAD_TOPIC")
		case op.S == "DPUB" && op.D%14 == 7:
			exp = pExpect{open: true, closes: true} // empty delay parameter: not specified
		case op.S == "DPUB" && !validDelay:
			fatal("E_INVALID")
		case !okBody:
			fatal("E_BAD_MESSAGE")
		default:
			exp = pExpect{resp: "OK"}
			pubTopic, pubCount = t, 1
		}
	case "MPUB":
		t := w.name(op.B)
		nmsg := int(op.D)
		var bodies [][]byte
		var sizes []int32
		allOK := true
		for i := 0; i < nmsg; i++ {
			sel := int64(7)
			if i == int(op.C)%nmsg && op.C%3 == 0 {
				sel = op.C // one possibly bad message in the batch
			}
			b, sz, ok := w.body(r, sel)
			bodies, sizes = append(bodies, b), append(sizes, sz)
			allOK = allOK && ok
		}
		var payload bytes.Buffer
		count := int32(nmsg)
		badCount := false
		switch op.C % 12 {
		case 10:
			count, badCount = 0, true
		case 11:
			count, badCount = -3, true
		}
		payload.Write(be32(count))
		for i := range bodies {
			payload.Write(be32(sizes[i]))
			payload.Write(bodies[i])
		}
		bodySize := int32(payload.Len())
		buf.WriteString("MPUB " + t + "\n")
		buf.Write(be32(bodySize))
		buf.Write(payload.Bytes())
		switch {
		case strings.ContainsAny(t, " ") || t == "":
			exp = pExpect{open: true, closes: true}
		case !validName(t):
			fatal("E_BAD_TOPIC")
		case int64(bodySize) > w.cfg.MaxBodySize || badCount:
			fatal("E_BAD_BODY")
		case !allOK:
			fatal("E_BAD_MESSAGE")
		default:
			exp = pExpect{resp: "OK"}
			pubTopic, pubCount = t, int64(nmsg)
		}
	case "RDY":
		v := []string{"0", "1", fmt.Sprint(w.cfg.MaxRdy), fmt.Sprint(w.cfg.MaxRdy + 1), "-1", "x", "99999999999999999999999", "", "007",
			"18446744073709551616", "18446744073709551617", "18446744073709551615", "184467440737095516161", "9223372036854775808",
			"000000000000000000001"}[op.B%15]
		line := "RDY " + v
		if v == "" {
			line = "RDY"
		}
		buf.WriteString(line + "\n")
		bv, valid, _ := spelledDelay(v, false)
		switch {
		case pc.state == "closing":
			exp = pExpect{}
		case pc.state != "subscribed":
			fatal("E_INVALID")
		case v == "":
			exp = pExpect{}
		case !valid || bv.Cmp(bigInt(w.cfg.MaxRdy)) > 0:
			fatal("E_INVALID")
		default:
			exp = pExpect{}
		}
	case "FIN", "REQ", "TOUCH":
		id := []string{"0123456789abcdef", "short", "0123456789abcdef0", "", "ffffffffffffffff", "HELD"}[op.B%6]
		if id == "HELD" {
			id = "0123456789abcde0"
			for _, h := range pc.held {
				if !pc.finished[h] {
					id = h
					break
				}
			}
		}
		line := op.S + " " + id
		badArg := false
		if op.S == "REQ" {
			// the delay argument: present (mostly), missing, not a number, followed by a surplus argument
			switch op.C % 8 {
			case 5:
				badArg = true
			case 6:
				line += " x1"
				badArg = true
			case 7:
				line += " 0 7"
			default:
				line += " 0"
			}
		}
		if id == "" {
			line = op.S
		}
		buf.WriteString(line + "\n")
		inflight := false
		for _, h := range pc.held {
			if h == id && !pc.finished[h] {
				inflight = true
			}
		}
		switch {
		case pc.state != "subscribed" && pc.state != "closing":
			fatal("E_INVALID")
		case id == "" || len(id) != 16 || badArg:
			fatal("E_INVALID")
		case inflight:
			exp = pExpect{open: true} // may have timed out meanwhile: accepted or E_*_FAILED
			if op.S != "TOUCH" {
				pc.finished[id] = true
			}
		default:
			exp = pExpect{code: "E_" + op.S + "_FAILED"}
		}
	case "CLS":
		buf.WriteString("CLS\n")
		if pc.state != "subscribed" {
			fatal("E_INVALID")
		} else {
			exp = pExpect{resp: "CLOSE_WAIT"}
			pc.state = "closing"
		}
	case "NOP":
		buf.WriteString("NOP\n")
	case "AUTH":
		body := []string{"secret", "", "x", strings.Repeat("s", int(w.cfg.MaxBodySize)+1)}[op.B%4]
		buf.WriteString("AUTH\n")
		buf.Write(be32(int32(len(body))))
		buf.WriteString(body)
		switch {
		case pc.state != "init":
			fatal("E_INVALID")
		case body == "" || int64(len(body)) > w.cfg.MaxBodySize:
			fatal("E_BAD_BODY")
		default:
			fatal("E_AUTH_DISABLED")
		}
	case "UNKNOWN":
		buf.WriteString([]string{"FOO", "pub h0", "SUBSCRIBE h0 c", "PUB", "REQ"}[op.B%5] + "\n")
		fatal("E_INVALID")
		if op.B%5 == 4 && pc.state != "subscribed" && pc.state != "closing" {
			fatal("E_INVALID")
		}
	case "TRUNC":
		// a publish whose body is cut short by the end of the connection
		t := "h0"
		buf.WriteString("PUB " + t + "\n")
		buf.Write(be32(int32(10)))
		buf.WriteString("abc")
		cl.Send(buf.Bytes())
		synctest.Wait()
		before := w.statsCount(t)
		if op.C%2 == 0 {
			cl.Close()
		} else {
			cl.Conn.Reset()
		}
		pc.dead = true
		synctest.Wait()
		if after := w.statsCount(t); after != before {
			w.violate("C09", "truncated-publish-enqueued", "a PUB cut off inside its body changed topic %s message_count %d -> %d", t, before, after)
		}
		return
	}
	// side-effect bookkeeping: what /stats says before
	var before int64 = -1
	target := pubTopic
	if target == "" && (op.S == "PUB" || op.S == "DPUB" || op.S == "MPUB") {
		if t := w.name(op.B); validName(t) {
			target = t
		}
	}
	if strings.HasSuffix(target, "#ephemeral") {
		target = "" // an ephemeral topic (and its counters) can vanish with its last channel
	}
	if target != "" {
		before = w.statsCount(target)
	}
	cl.Send(buf.Bytes())
	synctest.Wait()
	// a DPUB/PUB may sleep in the id generator: wait for the answer
	var fs []Frame
	if exp.resp != "" || exp.code != "" {
		if f, ok := cl.WaitFrame(30*time.Second, isNonMsg); ok {
			fs = append(fs, f)
		}
	}
	synctest.Wait()
	for _, f := range cl.Drain() {
		if f.Type == frameMessage {
			if wm, err := decodeWireMsg(f.Data); err == nil {
				pc.held = append(pc.held, wm.ID)
			}
			continue
		}
		fs = append(fs, f)
	}
	w.checkExpect(pc, op, exp, fs)
	if target != "" && before >= 0 && !exp.open && !pc.loose {
		after := w.statsCount(target)
		want := before + pubCount
		if exp.code != "" || exp.closes {
			want = before
		}
		if after != want {
			w.violate("C09", "publish-side-effect", "%s on %s answered %s: topic message_count %d -> %d, expected %d (rejected publishes enqueue nothing; MPUB is all-or-nothing)",
				op.S, target, frameSummary(fs), before, after, want)
		}
		rc.Probe("side_effect_checked")
	}
	if exp.closes && !exp.open {
		pc.dead = true
	}
	if cl.Closed() {
		pc.dead = true
	}
}

func frameSummary(fs []Frame) string {
	var s []string
	for _, f := range fs {
		s = append(s, fmt.Sprintf("%d:%q", f.Type, trunc(f.Data, 60)))
	}
	return "[" + strings.Join(s, " ") + "]"
}

func (w *pWorld) checkExpect(pc *pConn, op Op, exp pExpect, fs []Frame) {
	if exp.open || pc.loose {
		return
	}
	w.rc.Probe("responses_checked")
	what := fmt.Sprintf("%s (state %s, sel %d/%d/%d)", op.S, pc.state, op.B, op.C, op.D)
	var errs, resps []Frame
	for _, f := range fs {
		if f.Type == frameError {
			errs = append(errs, f)
		} else {
			resps = append(resps, f)
		}
	}
	if exp.code != "" {
		ok := len(errs) == 1 && (errCode(errs[0].Data) == exp.code)
		for _, c := range exp.codes {
			if len(errs) == 1 && errCode(errs[0].Data) == c {
				ok = true
			}
		}
		if !ok || len(resps) != 0 {
			w.violate("C09", "wrong-answer", "%s: expected error %s, got %s", what, exp.code, frameSummary(fs))
			return
		}
	} else {
		if len(errs) != 0 {
			w.violate("C09", "wrong-answer", "%s: expected success (%q), got %s", what, exp.resp, frameSummary(fs))
			return
		}
		switch exp.resp {
		case "":
			if len(resps) != 0 {
				w.violate("C09", "wrong-answer", "%s: expected no response, got %s", what, frameSummary(fs))
			}
		case "json":
			if len(resps) != 1 || !bytes.HasPrefix(resps[0].Data, []byte("{")) {
				w.violate("C09", "wrong-answer", "%s: expected a JSON response, got %s", what, frameSummary(fs))
			}
		default:
			if len(resps) != 1 || string(resps[0].Data) != exp.resp {
				w.violate("C09", "wrong-answer", "%s: expected %q, got %s", what, exp.resp, frameSummary(fs))
			}
		}
	}
	if exp.closes != pc.cl.Closed() {
		w.violate("C09", "wrong-fatality", "%s: connection closed=%v, expected %v (answer %s)", what, pc.cl.Closed(), exp.closes, frameSummary(fs))
	}
}

func (w *pWorld) identifyBody(sel int64) ([]byte, bool) {
	c := w.cfg
	type kv = map[string]interface{}
	cases := []struct {
		v     kv
		valid bool
	}{
		{kv{"client_id": "h"}, true},
		{kv{"client_id": "h", "feature_negotiation": true}, true},
		{kv{"heartbeat_interval": -1}, true},
		{kv{"heartbeat_interval": 999}, false},
		{kv{"heartbeat_interval": 1000}, true},
		{kv{"heartbeat_interval": c.MaxHBMs}, true},
		{kv{"heartbeat_interval": c.MaxHBMs + 1}, false},
		{kv{"output_buffer_size": 63}, false},
		{kv{"output_buffer_size": 64}, true},
		{kv{"output_buffer_size": c.MaxOBSize}, true},
		{kv{"output_buffer_size": c.MaxOBSize + 1}, false},
		{kv{"output_buffer_size": -1}, true},
		{kv{"output_buffer_timeout": 24}, false},
		{kv{"output_buffer_timeout": 25}, true},
		{kv{"output_buffer_timeout": c.MaxOBTMs + 1}, false},
		{kv{"sample_rate": 100}, false},
		{kv{"sample_rate": -1}, false},
		{kv{"sample_rate": 99}, true},
		{kv{"msg_timeout": 999}, false},
		{kv{"msg_timeout": c.MaxMsgTOMs + 1}, false},
		{kv{"feature_negotiation": true, "snappy": true, "deflate": true}, false}, // 20: E_IDENTIFY_FAILED
		{kv{"msg_timeout": c.MaxMsgTOMs}, true},
		// 22, 23: see below
		{kv{}, true}, {kv{}, true},
		// values whose conversion to nanoseconds (x 1e6) or to a narrower integer wraps around to something in range
		{kv{"msg_timeout": int64(18446744073710) + 1500}, false},
		{kv{"heartbeat_interval": int64(18446744073710) + 1500}, false},
		{kv{"output_buffer_timeout": int64(18446744073710) + 50}, false},
		{kv{"output_buffer_size": int64(1)<<32 + 64}, false},
		{kv{"sample_rate": int64(1)<<32 + 50}, false},
		{kv{"msg_timeout": int64(9223372036854775807)}, false},
		{kv{"heartbeat_interval": int64(9223372036854775807)}, false},
	}
	i := int(uint64(sel) % uint64(len(cases)))
	switch i {
	case 22:
		return []byte(`{"client_id":`), false
	case 23:
		return []byte(`[1,2,3]`), false
	}
	b, _ := json.Marshal(cases[i].v)
	return b, cases[i].valid
}

func (w *pWorld) statsCount(topic string) int64 {
	resp := httpDo(w.rc, "GET", w.http, "/stats?format=json&include_mem=false&topic="+url.QueryEscape(topic), nil, nil, nil, 30*time.Second)
	if resp.Err != nil || resp.Status != 200 {
		w.violate(w.rc.Prop, "stats-unavailable", "%d %v", resp.Status, resp.Err)
		return -1
	}
	var d statsDoc
	json.Unmarshal(resp.Body, &d)
	for _, t := range d.Topics {
		if t.TopicName == topic {
			return t.MessageCount
		}
	}
	return 0
}

func (w *pWorld) execGarbage(op Op) {
	pc := w.conn(op.A)
	if pc == nil {
		return
	}
	if pc.state == "new" {
		if op.B%4 != 0 {
			pc.cl.Send([]byte("  V2"))
		}
		pc.cl.Start()
	}
	before := w.statsCount("h0")
	pc.cl.Send(op.Data)
	synctest.Wait()
	time.Sleep(10 * time.Millisecond)
	if op.B%2 == 0 {
		pc.cl.Close()
	} else {
		pc.cl.Conn.Reset()
	}
	pc.dead = true
	synctest.Wait()
	w.rc.Probe("garbage_streams")
	_ = before
}

// ---------------------------------------------------------------- C10: HTTP requests with a reference table

func genHTTPOps(rc *RunCtx, c PCfg) []Op {
	r := rc.Rng
	n := r.Range(10, 70)
	var ops []Op
	add := func(o Op) { o.Uid = len(ops); ops = append(ops, o) }
	routes := []string{"/pub", "/mpub", "/topic/create", "/topic/delete", "/topic/empty", "/topic/pause", "/topic/unpause",
		"/channel/create", "/channel/delete", "/channel/empty", "/channel/pause", "/channel/unpause", "/stats", "/ping", "/info", "/config/log_level", "/config/nope", "/nope", "/", "/debug/setblockrate", "/debug/pprof/cmdline",
		"/config/nsqlookupd_tcp_addresses", "/config/nsqlookupd_tcp_addresses"}
	for len(ops) < n {
		switch r.Weighted([]int{50, 30, 3, 6, 5}) {
		case 0:
			add(Op{Kind: "http", S: routes[r.Intn(len(routes))], S2: r.PickS("POST", "POST", "POST", "GET", "PUT", "DELETE"),
				A: int64(r.Intn(10)), B: int64(r.Intn(10)), C: int64(r.Intn(12)), D: int64(r.Intn(16))})
		case 1:
			add(Op{Kind: "twinpub", A: int64(r.Intn(6)), B: int64(r.Intn(9)), C: int64(r.Intn(10)), D: int64(r.Range(1, 5))})
		case 2:
			add(Op{Kind: "adv", A: int64(r.Pick(10, 1000))})
		case 3:
			add(Op{Kind: "abortup", A: int64(r.Intn(4)), B: int64(r.Intn(6)), C: int64(r.Intn(1000)), D: int64(r.Range(1, 4))})
		case 4:
			add(Op{Kind: "badquery", A: int64(r.Intn(4)), B: int64(r.Intn(8)), C: int64(r.Intn(6))})
		}
	}
	return ops
}

func (w *pWorld) httpTopic(sel int64) (string, bool, bool) { // value, present, valid
	switch sel % 10 {
	case 0, 1:
		return "h0", true, true
	case 2:
		// a legal name made of words the routes are made of
		return "unpause.delete_empty-create", true, true
	case 3:
		return "h1", true, true
	case 4:
		return "ghost", true, true // valid but never created by valid requests below? (may be created by /topic/create)
	case 5:
		return "", false, false
	case 6:
		return "", true, false
	case 7:
		return "bad topic", true, false
	case 8:
		return strings.Repeat("t", 65), true, false
	default:
		return "e#ephemeral", true, true
	}
}

func (w *pWorld) execHTTPReq(op Op) {
	rc := w.rc
	r := NewPRNG(rc.Seed*977 + uint64(op.Uid))
	route, method := op.S, op.S2
	topic, tPresent, tValid := w.httpTopic(op.A)
	ch, cPresent, cValid := w.httpTopic(op.B + 3)
	if cValid && ch != "" {
		ch = "c" + ch
		if len(ch) > 64 {
			cValid = false
		}
	}
	q := url.Values{}
	if tPresent {
		q.Set("topic", topic)
	}
	isChan := strings.HasPrefix(route, "/channel/")
	if isChan && cPresent {
		q.Set("channel", ch)
	}
	var body []byte
	expect := []int{}
	checkList := false
	var newList []string
	needPOST := route != "/stats" && route != "/ping" && route != "/info" && !strings.HasPrefix(route, "/config") && route != "/nope" && route != "/" && !strings.HasPrefix(route, "/debug")
	exists := w.topics[topic]
	chExists := w.chans[topic+"/"+ch]
	switch {
	case route == "/nope" || route == "/":
		expect = []int{404}
	case route == "/debug/setblockrate":
		// PUT with an integer rate (0 = profiling off, which is what it already is)
		switch op.C % 4 {
		case 0, 1:
			q.Set("rate", "0")
		case 2:
			q.Set("rate", "often")
		}
		switch {
		case method != "PUT":
			expect = []int{405}
		case op.C%4 <= 1:
			expect = []int{200}
		default:
			expect = []int{400}
		}
		w.rc.Probe("debug_route_requests")
	case route == "/debug/pprof/cmdline":
		expect = []int{405}
		if method == "GET" {
			expect = []int{200}
		}
		w.rc.Probe("debug_route_requests")
	case route == "/config/nope":
		expect = []int{400, 405}
		if method == "GET" {
			expect = []int{400}
		} else if method == "PUT" {
			body = []byte("x")
			expect = []int{400}
		}
	case route == "/config/nsqlookupd_tcp_addresses":
		// the one list-valued option: a PUT replaces the list if its body is a JSON array of strings and is
		// refused (400) otherwise - and a refused PUT changes nothing; GET shows the list in force
		// (nothing listens on these addresses: the lookup loop's connection attempts are refused at once)
		switch method {
		case "GET":
			expect = []int{200}
			checkList = true
		case "PUT":
			lists := [][]string{{"127.0.0.1:4160"}, {"127.0.0.1:4160", "127.0.0.1:4170"}, {"127.0.0.1:4180", "127.0.0.1:4160", "127.0.0.1:4170"}, {}}
			bad := []string{`["127.0.0.1:4199", 7]`, `["127.0.0.1:4198","127.0.0.1:4197",{}]`, `{"a":"127.0.0.1:4196"}`, `["127.0.0.1:4195"`, `"127.0.0.1:4194"`, `[[ "127.0.0.1:4193" ]]`, `["127.0.0.1:4192", true, "127.0.0.1:4191"]`}
			if k := int(op.C) % (len(lists) + len(bad)); k < len(lists) {
				body, _ = json.Marshal(lists[k])
				expect = []int{200}
				newList = lists[k]
			} else {
				body = []byte(bad[k-len(lists)])
				expect = []int{400}
			}
			if int64(len(body)) > w.cfg.MaxMsgSize {
				// the option's value is read with the message size limit
				expect, newList = []int{413}, nil
			}
			checkList = true
		default:
			expect = []int{405}
		}
		w.rc.Probe("config_list_requests")
	case route == "/config/log_level":
		switch method {
		case "GET":
			expect = []int{200}
		case "PUT":
			body = []byte(r.PickS("debug", "info", "bogus", ""))
			expect = []int{200}
			if string(body) == "bogus" {
				expect = []int{400}
			}
			if len(body) == 0 {
				expect = []int{400, 413}
			}
		default:
			expect = []int{405}
		}
	case !needPOST:
		if method == "GET" {
			expect = []int{200}
		} else {
			expect = []int{405}
		}
	case method != "POST":
		expect = []int{405}
	case route == "/pub":
		sz := []int{1, int(w.cfg.MaxMsgSize), int(w.cfg.MaxMsgSize) + 1, 0, 5}[op.C%5]
		body = bytes.Repeat([]byte("p"), sz)
		deferOK := true
		switch op.D % 8 {
		case 1:
			q.Set("defer", "100")
		case 2:
			q.Set("defer", fmt.Sprint(w.cfg.MaxReqMs+1))
			deferOK = false
		case 3:
			q.Set("defer", "-5")
			deferOK = false
		case 4:
			q.Set("defer", "soon")
			deferOK = false
		case 5:
			q.Set("defer", "18446744073709552")
			deferOK = false
		}
		bad := []int{}
		if sz == 0 {
			bad = append(bad, 400)
		}
		if sz > int(w.cfg.MaxMsgSize) {
			bad = append(bad, 413)
		}
		if !tPresent || !tValid || !deferOK {
			bad = append(bad, 400)
		}
		if len(bad) > 0 {
			expect = bad
			w.noteMaybeTopic(topic, tPresent && tValid)
		} else {
			expect = []int{200}
			w.topics[topic] = true
			w.topicCount[topic]++
		}
	case route == "/mpub":
		// text mode by default, binary with D odd
		var lines [][]byte
		nl := int(op.C%4) + 1
		tooBig := false
		full := op.D%2 == 1 && op.B%3 == 0 // a batch of messages that are each as large as allowed: with the smallest max-body-size the batch as a whole is not
		for i := 0; i < nl; i++ {
			sz := []int{1, 3, int(w.cfg.MaxMsgSize), int(w.cfg.MaxMsgSize) + 1, 0}[r.Intn(5)]
			if full {
				sz = int(w.cfg.MaxMsgSize)
			}
			if sz > int(w.cfg.MaxMsgSize) {
				tooBig = true
			}
			lines = append(lines, bytes.Repeat([]byte("m"), sz))
		}
		accepted := 0
		if op.D%2 == 1 {
			q.Set("binary", "true")
			var nonEmpty [][]byte
			zero := false
			for _, l := range lines {
				if len(l) == 0 {
					zero = true
				}
				nonEmpty = append(nonEmpty, l)
			}
			body = mpubBody(nonEmpty)
			if zero {
				tooBig = true // a zero-length message is malformed in the binary format
			}
			accepted = len(nonEmpty)
			// damaged layouts of a complete request: all of them are refused as a whole
			switch (op.D >> 1) % 6 {
			case 1: // the last message (or its size word) is cut short
				cut := 1 + r.Intn(len(body)-1)
				if cut > 6 {
					cut = 1 + r.Intn(6)
				}
				body = body[:len(body)-cut]
				tooBig = true
				w.rc.Probe("mpub_binary_truncated")
			case 2: // the count announces one message more than there is
				body = append([]byte(nil), body...)
				binary.BigEndian.PutUint32(body[:4], uint32(len(nonEmpty)+1))
				tooBig = true
				w.rc.Probe("mpub_binary_count_too_high")
			case 3: // nonsensical count
				body = append([]byte(nil), body...)
				binary.BigEndian.PutUint32(body[:4], uint32(int32(r.Pick(0, -1, 1<<30))))
				tooBig = true
				w.rc.Probe("mpub_binary_bad_count")
			}
		} else {
			body = bytes.Join(lines, []byte("\n"))
			for _, l := range lines {
				if len(l) > 0 {
					accepted++
				}
			}
		}
		bad := []int{}
		if int64(len(body)) > w.cfg.MaxBodySize {
			bad = append(bad, 413)
			if op.D%5 == 4 && !tooBig {
				w.rc.Probe("mpub_chunked_over_body_limit_only")
			}
		}
		if tooBig {
			bad = append(bad, 413, 400)
		}
		if !tPresent || !tValid {
			bad = append(bad, 400)
		}
		if len(bad) > 0 {
			expect = bad
			w.noteMaybeTopic(topic, tPresent && tValid)
		} else {
			expect = []int{200}
			w.topics[topic] = true
			w.topicCount[topic] += int64(accepted)
		}
	case route == "/topic/create":
		if !tPresent || !tValid {
			expect = []int{400}
		} else {
			expect = []int{200}
			w.topics[topic] = true
		}
	case strings.HasPrefix(route, "/topic/"):
		switch {
		case !tPresent:
			expect = []int{400}
		case !tValid:
			expect = []int{400, 404}
		case !exists:
			expect = []int{404}
		default:
			expect = []int{200}
			switch route {
			case "/topic/delete":
				delete(w.topics, topic)
				delete(w.topicCount, topic)
				delete(w.paused, topic)
				for k := range w.chans {
					if strings.HasPrefix(k, topic+"/") {
						delete(w.chans, k)
						delete(w.paused, k)
					}
				}
			case "/topic/pause":
				w.paused[topic] = true
			case "/topic/unpause":
				delete(w.paused, topic)
			}
		}
	case isChan:
		switch {
		case !tPresent || !tValid || !cPresent || !cValid:
			expect = []int{400}
		case !exists:
			expect = []int{404}
		case route == "/channel/create":
			expect = []int{200}
			w.chans[topic+"/"+ch] = true
		case !chExists:
			expect = []int{404}
		default:
			expect = []int{200}
			switch route {
			case "/channel/delete":
				delete(w.chans, topic+"/"+ch)
				delete(w.paused, topic+"/"+ch)
			case "/channel/pause":
				w.paused[topic+"/"+ch] = true
			case "/channel/unpause":
				delete(w.paused, topic+"/"+ch)
			}
		}
	}
	pathq := route
	if len(q) > 0 {
		pathq += "?" + q.Encode()
	}
	var resp HTTPResp
	if op.D%5 == 4 && body != nil {
		resp = httpChunked(rc, method, w.http, pathq, body)
	} else {
		resp = httpDo(rc, method, w.http, pathq, body, nil, nil, 60*time.Second)
	}
	rc.Logf("http %s %s (%d bytes) -> %d %q err=%v expect %v", method, pathq, len(body), resp.Status, trunc(resp.Body, 80), resp.Err, expect)
	rc.Probe("http_checked")
	if resp.Err != nil {
		w.violate("C10", "no-response", "%s %s: %v", method, pathq, resp.Err)
		return
	}
	if resp.Status >= 500 {
		w.violate("C10", "status-5xx", "%s %s (%d byte body) answered %d %s", method, pathq, len(body), resp.Status, trunc(resp.Body, 100))
		return
	}
	ok := false
	for _, e := range expect {
		if e == resp.Status {
			ok = true
		}
	}
	if !ok {
		w.violate("C10", "wrong-status", "%s %s (%d byte body) answered %d %s, documented %v", method, pathq, len(body), resp.Status, trunc(resp.Body, 80), expect)
		return
	}
	if strings.HasPrefix(route, "/debug") {
		// plain-text routes: an error is a line of text, not a JSON document
	} else if resp.Status >= 400 && resp.Status != 405 && resp.Status != 404 || (resp.Status == 404 && needPOST) {
		var e struct {
			Message string `json:"message"`
		}
		if json.Unmarshal(resp.Body, &e) != nil || e.Message == "" {
			w.violate("C10", "malformed-error-body", "%s %s answered %d with body %q (expected JSON with message)", method, pathq, resp.Status, trunc(resp.Body, 80))
		}
	}
	if route == "/info" && resp.Status == 200 {
		// the ports nsqd listens on; -1 stands for a unix-domain socket
		var info struct {
			TCPPort  *int `json:"tcp_port"`
			HTTPPort *int `json:"http_port"`
		}
		wantTCP, wantHTTP := 4150, 4151
		if w.cfg.UnixTCP {
			wantTCP = -1
		}
		if w.cfg.UnixHTTP {
			wantHTTP = -1
		}
		if json.Unmarshal(resp.Body, &info) != nil || info.TCPPort == nil || info.HTTPPort == nil {
			w.violate("C10", "info-unreadable", "GET /info answered %q", trunc(resp.Body, 120))
		} else if *info.TCPPort != wantTCP || *info.HTTPPort != wantHTTP {
			w.violate("C10", "info-wrong-ports", "GET /info reports tcp_port %d http_port %d, the daemon listens on %s and %s", *info.TCPPort, *info.HTTPPort, w.tcp, w.http)
		}
		rc.Probe("info_checked")
	}
	if checkList {
		if newList != nil && resp.Status == 200 {
			w.lookupdList = newList
		}
		got := resp
		if method != "GET" {
			got = httpDo(rc, "GET", w.http, route, nil, nil, nil, 60*time.Second)
		}
		var list []string
		if got.Err != nil || got.Status != 200 || json.Unmarshal(got.Body, &list) != nil {
			w.violate("C10", "config-unreadable", "GET %s answered %d %q err=%v", route, got.Status, trunc(got.Body, 80), got.Err)
		} else if strings.Join(list, ",") != strings.Join(w.lookupdList, ",") {
			w.violate("C10", "config-list-changed", "GET %s shows %q after %s %s (%d); the list in force is %q", route, list, method, trunc(body, 60), resp.Status, w.lookupdList)
		}
		rc.Probe("config_list_checked")
	}
	w.checkRegistryHTTP()
}

func (w *pWorld) noteMaybeTopic(t string, valid bool) {
	if !valid {
		return
	}
	if w.maybeTopics == nil {
		w.maybeTopics = map[string]bool{}
	}
	w.maybeTopics[t] = true
}

// httpChunked sends the body with chunked transfer encoding (no Content-Length).
func httpChunked(rc *RunCtx, method, addr, pathq string, body []byte) HTTPResp {
	var b bytes.Buffer
	fmt.Fprintf(&b, "%s %s HTTP/1.1\r\nHost: nsqd\r\nTransfer-Encoding: chunked\r\nConnection: close\r\n\r\n", method, pathq)
	for len(body) > 0 {
		n := 7
		if n > len(body) {
			n = len(body)
		}
		fmt.Fprintf(&b, "%x\r\n", n)
		b.Write(body[:n])
		b.WriteString("\r\n")
		body = body[n:]
	}
	b.WriteString("0\r\n\r\n")
	raw, err := httpRaw(rc, addr, b.Bytes(), 60*time.Second)
	var out HTTPResp
	if len(raw) < 12 {
		out.Err = fmt.Errorf("short response %q (%v)", raw, err)
		return out
	}
	fmt.Sscanf(string(raw[9:12]), "%d", &out.Status)
	if i := bytes.Index(raw, []byte("\r\n\r\n")); i >= 0 {
		out.Body = raw[i+4:]
		if j := bytes.IndexByte(out.Body, '{'); j >= 0 {
			if k := bytes.LastIndexByte(out.Body, '}'); k > j {
				out.Body = out.Body[j : k+1]
			}
		}
	}
	return out
}

// checkRegistryHTTP: admin endpoints have exactly their stated effect and nothing else.
func (w *pWorld) checkRegistryHTTP() {
	resp := httpDo(w.rc, "GET", w.http, "/stats?format=json&include_mem=false", nil, nil, nil, 30*time.Second)
	if resp.Err != nil || resp.Status != 200 {
		w.violate("C10", "stats-unavailable", "%d %v", resp.Status, resp.Err)
		return
	}
	var d statsDoc
	if err := json.Unmarshal(resp.Body, &d); err != nil {
		w.violate("C10", "stats-unavailable", "%v", err)
		return
	}
	got := map[string]string{}
	for _, t := range d.Topics {
		if t.TopicName == "bystander" || strings.HasPrefix(t.TopicName, "twin") {
			continue
		}
		var cs []string
		for _, c := range t.Channels {
			cs = append(cs, fmt.Sprintf("%s:%v", c.ChannelName, c.Paused))
		}
		sort.Strings(cs)
		got[t.TopicName] = fmt.Sprintf("paused=%v count=%d chans=%v", t.Paused, t.MessageCount, cs)
	}
	want := map[string]string{}
	for t := range w.topics {
		var cs []string
		for k := range w.chans {
			if strings.HasPrefix(k, t+"/") {
				cs = append(cs, fmt.Sprintf("%s:%v", k[len(t)+1:], w.paused[k]))
			}
		}
		sort.Strings(cs)
		want[t] = fmt.Sprintf("paused=%v count=%d chans=%v", w.paused[t], w.topicCount[t], cs)
	}
	// a refused publish may have created its (validly named) topic on the way
	for t := range w.maybeTopics {
		if _, in := want[t]; !in {
			if g, ok := got[t]; ok && g == "paused=false count=0 chans=[]" {
				w.topics[t] = true
				want[t] = g
			}
		}
	}
	if fmt.Sprint(got) != fmt.Sprint(want) {
		w.violate("C10", "unexpected-state", "/stats shows %v, the requests so far should give %v", got, want)
	}
}

// ---------------------------------------------------------------- C10: HTTP ≡ TCP publish

// execTwin performs the same publish over HTTP (topic twinh) and TCP (topic twint).
func (w *pWorld) execTwin(op Op) {
	rc := w.rc
	r := NewPRNG(rc.Seed*613 + uint64(op.Uid))
	max := int(w.cfg.MaxMsgSize)
	mk := func(sel int) []byte {
		w.bodyN++
		n := []int{1, 8, max, max + 1, max / 2, 2}[sel%6]
		b := []byte(fmt.Sprintf("w%05d|", w.bodyN))
		for len(b) < n {
			b = append(b, byte('a'+r.Intn(26)))
		}
		return b[:n]
	}
	pub, err := dialV2(rc, "twinpub", w.tcp, "  V2")
	if err != nil {
		return
	}
	pub.Start()
	defer pub.Close()
	tcpResult := func() (bool, string) {
		f, ok := pub.WaitFrame(30*time.Second, isNonMsg)
		if !ok {
			return false, "no answer"
		}
		return f.Type == frameResponse && string(f.Data) == "OK", string(f.Data)
	}
	var hresp HTTPResp
	var tOK bool
	var tAns string
	var bodies [][]byte
	switch op.A % 6 {
	case 0, 1: // single publish
		b := mk(int(op.B))
		bodies = [][]byte{b}
		hresp = httpDo(rc, "POST", w.http, "/pub?topic=twinh", b, nil, nil, 60*time.Second)
		pub.Cmd("PUB twint", b)
		tOK, tAns = tcpResult()
	case 2: // deferred
		b := mk(int(op.B))
		bodies = [][]byte{b}
		d := []string{"0", "50", fmt.Sprint(w.cfg.MaxReqMs), fmt.Sprint(w.cfg.MaxReqMs + 1), "18446744073709552"}[op.C%5]
		hresp = httpDo(rc, "POST", w.http, "/pub?topic=twinh&defer="+d, b, nil, nil, 60*time.Second)
		pub.Cmd("DPUB twint "+d, b)
		tOK, tAns = tcpResult()
	case 3, 4: // text multi publish with arbitrary newline layout
		var payload bytes.Buffer
		for i := 0; i < int(op.D); i++ {
			b := mk(r.Intn(6))
			if r.Chance(1, 4) {
				b = nil // empty line
			}
			for j := range b {
				if b[j] == '\n' {
					b[j] = '_'
				}
			}
			payload.Write(b)
			if r.Chance(1, 5) {
				payload.WriteString("\r")
			}
			if i < int(op.D)-1 || r.Chance(1, 2) {
				payload.WriteString("\n")
			}
		}
		for _, l := range bytes.Split(payload.Bytes(), []byte("\n")) {
			if len(l) > 0 {
				bodies = append(bodies, l)
			}
		}
		hresp = httpDo(rc, "POST", w.http, "/mpub?topic=twinh", payload.Bytes(), nil, nil, 60*time.Second)
		if len(bodies) == 0 {
			// nothing to publish: no TCP equivalent; HTTP must enqueue nothing
			if hresp.Status == 200 {
				rc.Probe("twin_empty_text_mpub")
			}
			return
		}
		pub.Cmd("MPUB twint", mpubBody(bodies))
		tOK, tAns = tcpResult()
		if (int64(len(mpubBody(bodies))) > w.cfg.MaxBodySize) != (int64(payload.Len()) > w.cfg.MaxBodySize) {
			// max-body-size limits the body as each protocol carries it: the same messages are a few bytes
			// longer with MPUB's count and size words than as lines of text (or shorter, with blank lines
			// and carriage returns), and right at the limit one form fits and the other does not
			rc.Probe("twin_body_limit_differs_by_encoding")
			// (what each side accepted is still owed on its own topic)
			for _, b := range bodies {
				if hresp.Err == nil && hresp.Status == 200 {
					w.twinLedger["twinh"] = append(w.twinLedger["twinh"], string(b))
				}
				if tOK {
					w.twinLedger["twint"] = append(w.twinLedger["twint"], string(b))
				}
			}
			return
		}
	case 5: // binary multi publish
		for i := 0; i < int(op.D); i++ {
			bodies = append(bodies, mk(r.Intn(6)))
		}
		hresp = httpDo(rc, "POST", w.http, "/mpub?topic=twinh&binary=true", mpubBody(bodies), nil, nil, 60*time.Second)
		pub.Cmd("MPUB twint", mpubBody(bodies))
		tOK, tAns = tcpResult()
	}
	rc.Probe("twin_publishes")
	if hresp.Err != nil {
		w.violate("C10", "no-response", "twin publish: %v", hresp.Err)
		return
	}
	hOK := hresp.Status == 200
	if hOK != tOK {
		w.violate("C10", "http-tcp-acceptance-differs", "publish variant %d of %d message(s): HTTP answered %d %s, the equivalent TCP command answered %q", op.A%6, len(bodies), hresp.Status, trunc(hresp.Body, 60), tAns)
		return
	}
	if hresp.Status >= 500 {
		w.violate("C10", "status-5xx", "twin publish answered %d", hresp.Status)
	}
	if hOK {
		for _, b := range bodies {
			w.twinLedger["twinh"] = append(w.twinLedger["twinh"], string(b))
			w.twinLedger["twint"] = append(w.twinLedger["twint"], string(b))
		}
	}
}

// twinCompare consumes both twin topics and compares the multisets of bodies.
func (w *pWorld) twinCompare() {
	rc := w.rc
	if len(w.twinLedger["twinh"]) == 0 {
		return
	}
	time.Sleep(ms(w.cfg.MaxReqMs) + 2*time.Second) // let deferred publishes mature
	got := map[string][]string{}
	for _, t := range []string{"twinh", "twint"} {
		cl, err := dialV2(rc, "twincons-"+t, w.tcp, "  V2")
		if err != nil {
			return
		}
		cl.Identify(map[string]interface{}{"client_id": "tw", "output_buffer_size": -1, "feature_negotiation": true}, nil)
		synctest.Wait()
		cl.Start()
		cl.Cmd("SUB "+t+" ch", nil)
		cl.WaitFrame(10*time.Second, isNonMsg)
		cl.Cmd(fmt.Sprintf("RDY %d", w.cfg.MaxRdy), nil)
		for {
			f, ok := cl.WaitFrame(3*time.Second, func(f Frame) bool { return f.Type == frameMessage })
			if !ok {
				break
			}
			wm, _ := decodeWireMsg(f.Data)
			got[t] = append(got[t], string(wm.Body))
			cl.Cmd("FIN "+wm.ID, nil)
		}
		cl.Close()
	}
	for _, t := range []string{"twinh", "twint"} {
		a, b := append([]string(nil), got[t]...), append([]string(nil), w.twinLedger[t]...)
		sort.Strings(a)
		sort.Strings(b)
		if strings.Join(a, "\x00") != strings.Join(b, "\x00") {
			w.violate("C10", "http-tcp-messages-differ", "topic %s delivered %d messages, %d were accepted; delivered %q accepted %q", t, len(a), len(b), trunc([]byte(strings.Join(a, ",")), 200), trunc([]byte(strings.Join(b, ",")), 200))
			return
		}
	}
	rc.Probe("twin_compared")
}

var _ = binary.BigEndian

func bigInt(v int64) *big.Int { return big.NewInt(v) }

// execNegotiate: a fresh connection negotiates compression with every kind of
// level (in range, at and beyond the daemon's maximum, nonsensical), and then
// uses the upgraded connection once. The documented range of deflate_level is
// 1..max-deflate-level; whatever the client asks for, the level the daemon
// reports must lie inside it (and equal the request when that was in range),
// and the upgraded connection must work.
func (w *pWorld) execNegotiate(op Op) {
	rc := w.rc
	max := w.cfg.MaxDeflate
	if max == 0 {
		max = 6
	}
	levels := []int64{1, int64(max), int64(max) + 1, 9, 10, 11, 100, 0, -1, 1 << 31, int64(max) - 1, 5}
	lvl := levels[int(uint64(op.A)%uint64(len(levels)))]
	cl, err := dialV2(rc, "nego", w.tcp, "  V2")
	if err != nil {
		w.violate("C09", "refused", "connect: %v", err)
		return
	}
	defer func() { cl.Close(); synctest.Wait() }()
	opts := map[string]interface{}{"client_id": "nego", "feature_negotiation": true}
	switch op.B % 3 {
	case 0, 1:
		opts["deflate"] = true
		opts["deflate_level"] = lvl
	case 2:
		opts["snappy"] = true
	}
	resp, err := cl.Identify(opts, nil)
	rc.Logf("negotiate %v -> %v err=%v", opts, resp, err)
	rc.Probe("negotiations")
	if err != nil {
		if strings.Contains(err.Error(), "E_BAD_BODY") || strings.Contains(err.Error(), "E_IDENTIFY_FAILED") {
			return // refusing a nonsensical level is a defined answer too
		}
		w.violate("C09", "negotiation-failed", "IDENTIFY %v: %v", opts, err)
		return
	}
	if opts["deflate"] == true {
		got, _ := resp["deflate_level"].(float64)
		if d, _ := resp["deflate"].(bool); !d {
			w.violate("C09", "negotiation-failed", "IDENTIFY %v: deflate not granted: %v", opts, resp)
			return
		}
		if int(got) < 1 || int(got) > max {
			w.violate("C09", "limit-not-enforced", "IDENTIFY with deflate_level %d: the daemon reports level %v, outside 1..max-deflate-level %d", lvl, got, max)
			return
		}
		if lvl >= 1 && lvl <= int64(max) && int64(got) != lvl {
			w.violate("C09", "wrong-answer", "IDENTIFY with deflate_level %d (max %d): negotiated %v", lvl, max, got)
			return
		}
	}
	// one exchange over the upgraded connection: TOUCH is not allowed before SUB -> fatal E_INVALID
	cl.Start()
	cl.Cmd("TOUCH 0123456789abcdef", nil)
	f, ok := cl.WaitFrame(10*time.Second, isNonMsg)
	if !ok || f.Type != frameError || errCode(f.Data) != "E_INVALID" {
		w.violate("C09", "wrong-answer", "after negotiating %v: TOUCH before SUB answered %q ok=%v (expected fatal E_INVALID over the upgraded connection)", opts, trunc(f.Data, 60), ok)
	}
}

// execAbortUpload: a publish request whose upload breaks off (declared length
// or chunked; single, text and binary multi-publish). The request was never
// completed, so - like a TCP PUB/MPUB cut off inside its body - it enqueues
// nothing: the topic's message count must not move.
func (w *pWorld) execAbortUpload(op Op) {
	rc := w.rc
	r := NewPRNG(rc.Seed*733 + uint64(op.Uid))
	topic := []string{"h0", "h0", "h1", "h0"}[op.A%4]
	n := int(op.D)
	var lines [][]byte
	for i := 0; i < n; i++ {
		sz := 1 + r.Intn(int(w.cfg.MaxMsgSize))
		if sz > 40 {
			sz = 1 + r.Intn(40)
		}
		lines = append(lines, bytes.Repeat([]byte{byte('a' + i)}, sz))
	}
	var path string
	var body []byte
	switch op.B % 3 {
	case 0:
		path = "/pub?topic=" + topic
		body = lines[0]
		if len(body) < 2 {
			body = append(body, 'z')
		}
	case 1:
		path = "/mpub?topic=" + topic
		body = append(bytes.Join(lines, []byte("\n")), '\n')
	default:
		path = "/mpub?binary=true&topic=" + topic
		body = mpubBody(lines)
	}
	chunked := op.B%6 >= 3
	var raw bytes.Buffer
	headLen, payloadEnd := 0, 0
	var cuts []int // offsets (into raw) at which the upload may stop: after at least one body byte, before the request is complete
	if chunked {
		fmt.Fprintf(&raw, "POST %s HTTP/1.1\r\nHost: nsqd\r\nTransfer-Encoding: chunked\r\n\r\n", path)
		headLen = raw.Len()
		rest := body
		for len(rest) > 0 {
			k := 1 + r.Intn(len(rest))
			fmt.Fprintf(&raw, "%x\r\n", k)
			raw.Write(rest[:k])
			payloadEnd = raw.Len()
			raw.WriteString("\r\n")
			rest = rest[k:]
			if len(rest) > 0 {
				cuts = append(cuts, raw.Len()) // after a complete chunk: everything so far is well-formed, the rest is missing
			}
		}
		raw.WriteString("0\r\n\r\n")
	} else {
		fmt.Fprintf(&raw, "POST %s HTTP/1.1\r\nHost: nsqd\r\nContent-Length: %d\r\n\r\n", path, len(body))
		headLen = raw.Len()
		raw.Write(body)
		for i, c := range body[:len(body)-1] {
			if c == '\n' {
				cuts = append(cuts, headLen+i+1) // right after a complete line
			}
		}
	}
	total := raw.Len()
	cut := headLen + 1 + r.Intn(total-headLen-1)
	if chunked {
		// at least one byte of the payload itself is missing (a self-delimiting binary batch whose bytes all arrived,
		// with only the terminating chunk missing, is a border case the statement leaves open)
		cut = headLen + 1 + r.Intn(payloadEnd-1-headLen)
	}
	if len(cuts) > 0 && op.C%2 == 0 {
		cut = cuts[int(op.C/2)%len(cuts)]
	}
	if cut >= total {
		cut = total - 1
	}
	c, err := rc.Net.DialFrom(nil, w.http)
	if err != nil {
		w.violate("C10", "refused", "connect: %v", err)
		return
	}
	c.SetLimitOut(0)
	c.Write(raw.Bytes()[:cut])
	synctest.Wait()
	if op.C%3 == 0 {
		c.Reset()
	} else {
		c.Close()
	}
	synctest.Wait()
	rc.Fault("http_upload_aborted")
	rc.Logf("aborted upload %s chunked=%v: %d of %d bytes", path, chunked, cut, total)
	w.noteMaybeTopic(topic, true)
	w.checkRegistryHTTP()
	if rc.Failed() && rc.viol != nil && rc.viol.Class == "unexpected-state" {
		rc.viol.Detail = fmt.Sprintf("after an upload to %s (chunked=%v) that broke off after %d of %d bytes: %s", path, chunked, cut, total, rc.viol.Detail)
	}
}

// execBadQuery: a request whose query string cannot be parsed (bad percent
// escape, semicolon separator) carries invalid arguments: 400, and no effect.
func (w *pWorld) execBadQuery(op Op) {
	rc := w.rc
	topic := []string{"h0", "h1", "ghost", "h0"}[op.A%4]
	bad := []string{"&defer=%zz", "&x=%", "&defer=100;x=1", ";topic=h1", "&%gg=1", "&binary=%zz", "&a=b;c=d", "&channel=%ff%zz"}[op.B%8]
	route := []string{"/pub", "/mpub", "/topic/create", "/topic/pause", "/channel/create", "/topic/empty"}[op.C%6]
	pathq := route + "?topic=" + topic + bad
	body := []byte("bq")
	if route != "/pub" && route != "/mpub" {
		body = nil
	}
	raw := fmt.Sprintf("POST %s HTTP/1.1\r\nHost: nsqd\r\nConnection: close\r\nContent-Length: %d\r\n\r\n%s", pathq, len(body), body)
	out, err := httpRaw(rc, w.http, []byte(raw), 30*time.Second)
	rc.Probe("malformed_query_requests")
	status := 0
	if len(out) > 12 {
		fmt.Sscanf(string(out[9:12]), "%d", &status)
	}
	rc.Logf("bad query %s -> %d err=%v", pathq, status, err)
	if status != 400 {
		w.violate("C10", "wrong-status", "POST %s (query string that cannot be parsed) answered %d %q, documented [400]", pathq, status, trunc(out, 80))
		return
	}
	w.noteMaybeTopic(topic, true)
	w.checkRegistryHTTP()
}
