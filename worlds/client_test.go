package zzverif

import (
	"bufio"
	"bytes"
	"compress/flate"
	"crypto/tls"
	"encoding/binary"
	"encoding/json"
	"errors"
	"fmt"
	"io"
	"net"
	"net/http"
	"strings"
	"sync"
	"time"

	"github.com/golang/snappy"

	"verifsim/simnet"
)

const (
	frameResponse = 0
	frameError    = 1
	frameMessage  = 2
)

// Frame is one V2 frame as received by a raw client.
type Frame struct {
	Type int32
	Data []byte
	Seq  uint64    // world-global event sequence number at receipt
	At   time.Time // simulated time at receipt
}

type WireMsg struct {
	ID        string
	Attempts  uint16
	Timestamp int64
	Body      []byte
}

func decodeWireMsg(b []byte) (WireMsg, error) {
	if len(b) < 26 {
		return WireMsg{}, fmt.Errorf("short message frame (%d bytes)", len(b))
	}
	return WireMsg{
		Timestamp: int64(binary.BigEndian.Uint64(b[:8])),
		Attempts:  binary.BigEndian.Uint16(b[8:10]),
		ID:        string(b[10:26]),
		Body:      append([]byte(nil), b[26:]...),
	}, nil
}

// V2Client is a byte-level client of nsqd's (or nsqlookupd's) TCP protocol.
type V2Client struct {
	rc      *RunCtx
	Name    string
	Conn    *simnet.Conn
	r       io.Reader
	w       io.Writer
	flush   func() error
	mu      sync.Mutex
	cond    *sync.Cond
	inbox   []Frame
	closed  bool  // reader saw EOF or an error
	readErr error // the error (nil for clean EOF)
	AutoNop bool
	started bool
	// raw bytes mode (no frame parsing): everything read is appended to Raw
	RawMode bool
	Raw     []byte
	Opts    map[string]interface{}
	hbSeen  int
	Pipelined []byte
}

func dialV2(rc *RunCtx, name, addr string, magic string) (*V2Client, error) {
	c, err := rc.Net.DialFrom(nil, addr)
	if err != nil {
		return nil, err
	}
	c.SetLimitOut(0) // harness writes never block
	c.Tag = name
	cl := &V2Client{rc: rc, Name: name, Conn: c, r: c, w: c, AutoNop: true}
	cl.cond = sync.NewCond(&cl.mu)
	if magic != "" {
		cl.w.Write([]byte(magic))
	}
	return cl, nil
}

// Start launches the reader goroutine.
func (c *V2Client) Start() {
	if c.started {
		return
	}
	c.started = true
	go c.readLoop()
}

func (c *V2Client) readLoop() {
	if c.RawMode {
		buf := make([]byte, 4096)
		for {
			n, err := c.r.Read(buf)
			c.mu.Lock()
			c.Raw = append(c.Raw, buf[:n]...)
			if err != nil {
				c.closed = true
				if err != io.EOF {
					c.readErr = err
				}
				c.cond.Broadcast()
				c.mu.Unlock()
				return
			}
			c.cond.Broadcast()
			c.mu.Unlock()
		}
	}
	for {
		f, err := c.readFrame()
		c.mu.Lock()
		if err != nil {
			c.closed = true
			if err != io.EOF {
				c.readErr = err
			}
			c.cond.Broadcast()
			c.mu.Unlock()
			return
		}
		isHB := f.Type == frameResponse && bytes.Equal(f.Data, []byte("_heartbeat_"))
		if isHB {
			c.hbSeen++
		}
		if !isHB {
			c.inbox = append(c.inbox, f)
		}
		c.cond.Broadcast()
		c.mu.Unlock()
		if isHB && c.AutoNop {
			c.Send([]byte("NOP\n"))
		}
	}
}

func (c *V2Client) readFrame() (Frame, error) {
	var hdr [4]byte
	if _, err := io.ReadFull(c.r, hdr[:]); err != nil {
		return Frame{}, err
	}
	size := int32(binary.BigEndian.Uint32(hdr[:]))
	if size < 4 || size > 64<<20 {
		return Frame{}, fmt.Errorf("bad frame size %d", size)
	}
	buf := make([]byte, size)
	if _, err := io.ReadFull(c.r, buf); err != nil {
		if err == io.EOF {
			err = io.ErrUnexpectedEOF
		}
		return Frame{}, err
	}
	return Frame{Type: int32(binary.BigEndian.Uint32(buf[:4])), Data: buf[4:], Seq: c.rc.Net.NextSeq(), At: time.Now()}, nil
}

// Send writes raw bytes (never blocks: the client side send buffer is unbounded).
func (c *V2Client) Send(b []byte) error {
	c.mu.Lock()
	w, fl := c.w, c.flush
	c.mu.Unlock()
	_, err := w.Write(b)
	if err == nil && fl != nil {
		err = fl()
	}
	return err
}

func (c *V2Client) Cmd(line string, body []byte) error {
	var buf bytes.Buffer
	buf.WriteString(line)
	buf.WriteByte('\n')
	if body != nil {
		binary.Write(&buf, binary.BigEndian, int32(len(body)))
		buf.Write(body)
	}
	return c.Send(buf.Bytes())
}

// Drain returns and clears the frames received so far.
func (c *V2Client) Drain() []Frame {
	c.mu.Lock()
	fs := c.inbox
	c.inbox = nil
	c.mu.Unlock()
	return fs
}

func (c *V2Client) Closed() bool {
	c.mu.Lock()
	defer c.mu.Unlock()
	return c.closed
}

// WaitFrame blocks (simulated time may pass) until a frame matching pred is
// in the inbox, the connection ended, or the timeout elapsed. Matching frame
// is removed and returned.
func (c *V2Client) WaitFrame(timeout time.Duration, pred func(Frame) bool) (Frame, bool) {
	deadline := time.Now().Add(timeout)
	t := time.AfterFunc(timeout, func() { c.mu.Lock(); c.cond.Broadcast(); c.mu.Unlock() })
	defer t.Stop()
	c.mu.Lock()
	defer c.mu.Unlock()
	for {
		for i, f := range c.inbox {
			if pred == nil || pred(f) {
				c.inbox = append(c.inbox[:i:i], c.inbox[i+1:]...)
				return f, true
			}
		}
		if c.closed || !time.Now().Before(deadline) {
			return Frame{}, false
		}
		c.cond.Wait()
	}
}

func isNonMsg(f Frame) bool { return f.Type != frameMessage }

// WaitClosed blocks until the connection ended or the timeout elapsed.
func (c *V2Client) WaitClosed(timeout time.Duration) bool {
	deadline := time.Now().Add(timeout)
	t := time.AfterFunc(timeout, func() { c.mu.Lock(); c.cond.Broadcast(); c.mu.Unlock() })
	defer t.Stop()
	c.mu.Lock()
	defer c.mu.Unlock()
	for !c.closed && time.Now().Before(deadline) {
		c.cond.Wait()
	}
	return c.closed
}

func (c *V2Client) Close() { c.Conn.Close() }

// Identify performs IDENTIFY synchronously (before Start) including the TLS /
// snappy / deflate upgrades. It returns the negotiated response.
func (c *V2Client) Identify(opts map[string]interface{}, tlsCfg *tls.Config) (map[string]interface{}, error) {
	if c.started {
		return nil, errors.New("Identify after Start")
	}
	c.Opts = opts
	body, _ := json.Marshal(opts)
	var ib bytes.Buffer
	ib.WriteString("IDENTIFY\n")
	binary.Write(&ib, binary.BigEndian, int32(len(body)))
	ib.Write(body)
	ib.Write(c.Pipelined) // bytes sent in the same segment, behind the IDENTIFY
	if err := c.Send(ib.Bytes()); err != nil {
		return nil, err
	}
	f, err := c.readFrameTimeout(10 * time.Second)
	if err != nil {
		return nil, err
	}
	if f.Type == frameError {
		return nil, fmt.Errorf("IDENTIFY error: %s", f.Data)
	}
	if bytes.Equal(f.Data, []byte("OK")) {
		return map[string]interface{}{}, nil
	}
	var resp map[string]interface{}
	if err := json.Unmarshal(f.Data, &resp); err != nil {
		return nil, fmt.Errorf("IDENTIFY response: %v (%q)", err, f.Data)
	}
	b := func(k string) bool { v, _ := resp[k].(bool); return v }
	var base net.Conn = c.Conn
	if b("tls_v1") {
		if tlsCfg == nil {
			tlsCfg = &tls.Config{InsecureSkipVerify: true}
		}
		tc := tls.Client(base, tlsCfg)
		if err := tc.Handshake(); err != nil {
			return resp, fmt.Errorf("tls handshake: %v", err)
		}
		base = tc
		c.r, c.w = tc, tc
		if err := c.expectOK(); err != nil {
			return resp, err
		}
	}
	if b("snappy") {
		c.r = snappy.NewReader(base)
		//lint:ignore SA1019 matches what go-nsq does
		c.w = snappy.NewWriter(base)
		if err := c.expectOK(); err != nil {
			return resp, err
		}
	}
	if b("deflate") {
		lvl := 6
		if v, ok := resp["deflate_level"].(float64); ok {
			lvl = int(v)
		}
		if lvl < 1 || lvl > 9 {
			lvl = 6 // (the level only matters to the side that compresses)
		}
		c.r = flate.NewReader(base)
		fw, _ := flate.NewWriter(base, lvl)
		c.w = fw
		c.flush = fw.Flush
		if err := c.expectOK(); err != nil {
			return resp, err
		}
	}
	return resp, nil
}

func (c *V2Client) expectOK() error {
	f, err := c.readFrameTimeout(10 * time.Second)
	if err != nil {
		return err
	}
	if f.Type != frameResponse || !bytes.Equal(f.Data, []byte("OK")) {
		return fmt.Errorf("expected OK after upgrade, got type %d %q", f.Type, f.Data)
	}
	return nil
}

func (c *V2Client) readFrameTimeout(d time.Duration) (Frame, error) {
	c.Conn.SetReadDeadline(time.Now().Add(d))
	defer c.Conn.SetReadDeadline(time.Time{})
	for {
		f, err := c.readFrame()
		if err != nil {
			return f, err
		}
		if f.Type == frameResponse && bytes.Equal(f.Data, []byte("_heartbeat_")) {
			c.Send([]byte("NOP\n"))
			continue
		}
		return f, nil
	}
}

// ---------------------------------------------------------------- HTTP

type HTTPResp struct {
	Status int
	Body   []byte
	Header http.Header
	Err    error
	SeqIn  uint64
	SeqOut uint64
	At     time.Time
}

// httpDo performs one HTTP/1.1 request over simnet on a fresh connection.
func httpDo(rc *RunCtx, method, addr, pathq string, body []byte, hdr map[string]string, srcIP net.IP, timeout time.Duration) HTTPResp {
	var out HTTPResp
	out.SeqIn = rc.Net.NextSeq()
	c, err := rc.Net.DialFrom(srcIP, addr)
	if err != nil {
		out.Err = err
		return out
	}
	defer c.Close()
	c.SetLimitOut(0)
	if timeout > 0 {
		c.SetDeadline(time.Now().Add(timeout))
	}
	var rd io.Reader
	if body != nil {
		rd = bytes.NewReader(body)
	}
	host := addr
	if strings.Contains(addr, "/") {
		host = "nsqd" // a unix-domain socket: the address is a path, the request still names some host
	}
	req, err := http.NewRequest(method, "http://"+host+pathq, rd)
	if err != nil {
		out.Err = err
		return out
	}
	for k, v := range hdr {
		req.Header.Set(k, v)
	}
	req.Close = true
	if err := req.Write(c); err != nil {
		out.Err = err
		return out
	}
	resp, err := http.ReadResponse(bufio.NewReader(c), req)
	if err != nil {
		out.Err = err
		return out
	}
	b, err := io.ReadAll(resp.Body)
	resp.Body.Close()
	out.Status, out.Body, out.Header, out.Err = resp.StatusCode, b, resp.Header, err
	out.SeqOut = rc.Net.NextSeq()
	out.At = time.Now()
	return out
}

// httpRaw sends raw bytes and returns everything received until close/timeout.
func httpRaw(rc *RunCtx, addr string, raw []byte, timeout time.Duration) ([]byte, error) {
	c, err := rc.Net.DialFrom(nil, addr)
	if err != nil {
		return nil, err
	}
	defer c.Close()
	c.SetLimitOut(0)
	c.SetDeadline(time.Now().Add(timeout))
	c.Write(raw)
	b, err := io.ReadAll(c)
	return b, err
}

func errCode(data []byte) string {
	s := string(data)
	if i := strings.IndexByte(s, ' '); i >= 0 {
		return s[:i]
	}
	return s
}
